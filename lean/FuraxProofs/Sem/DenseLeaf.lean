/-
The dense einsum leaf (`DenseBlockDiagonalOperator`, src/furax/_base/dense.py) as a map on flat real vectors, in the
vocabulary of the closed list denotation (FuraxProofs/Sem/ListSem.lean): ONE block array shared by all the leaves
(`Params.vals`), the executable kernel `Einsum.einsum2` (FuraxModel/EinsumEval.lean) applied to every leaf, the results
concatenated.

The definitions are in FuraxProofs/Sem/ListSem.lean (the closed denotation `den` uses them for the dense leaves with a
shared block array, `denseShared`):
* `denseKernel subs vals li lo` — `mv` on one leaf of shape `li.shape` (row-major), `jnp.einsum(subs, blocks, leaf)`;
* `denseLeaf p`                 — `mv`: leaf `k` of `p.inS` ↦ leaf `k` of `p.outS` (`perLeaf`);
* `dualParams p`                — the parameters of the leaf that `transposeOp` builds (`transposeOp_dense`):
                                  rewritten subscripts, swapped structures, the SAME block array;
* `denseLeafT p`                — `mv` of that leaf.
This file sits BEFORE the leaf laws of the denotation (LeafHom, ListModel, AdjointList, LinearList use it).

`DenseCert p` / `denseOK p` is the validity predicate: the subscripts parse, the block term has no blank, the
transposer accepts them, the output letters are distinct, and every leaf fits its term EXACTLY (`LeafFits`: the input
and output leaves carry the whole ellipsis shape `es`, the blocks a suffix `eB` of it; no size-1 axis is stretched).

Results (all for `ℝ`, flat vectors):
  (a) `denseLeaf_length`, `denseKernel_length` (no padding / truncation happens), `denseOK_outShape` (the declared
      output leaves are what `Einsum.outShape` gives);
  (b) `denseLeaf_add`, `denseLeaf_hom` (EVERY `p`, no validity hypothesis), `denseLeafT_add`, `denseLeafT_hom`;
  (c) `denseLeaf_adjoint` : `dot (denseLeaf p x) y = dot x (denseLeafT p y)`;
      `transposeOp_dense_ok` : the form `transposeOp` builds is the dense leaf of `dualParams p`, whose `denseLeaf` is
      `denseLeafT p`; `denseOK_dual`; `denseLeaf_dual_dual` (transposing twice gives back the same map);
  (d) the dense matrix is in FuraxProofs/Sem/DenseMatrix.lean;
  (e) the concrete instances are in FuraxProofs/Props/C14Closed.lean.
  (f) `denseCheck_iff : denseCheck p = true ↔ denseOK p` — the executable check of FuraxModel/DenseCheck.lean (core
      Lean, compiled into the driver: `(valid OP)`) DECIDES `denseOK`: sound (`denseOK_of_denseCheck`) and complete
      (`denseCheck_of_denseOK`; `fitsB_complete`: the witnesses of `LeafFits` are determined by the shapes).
The read-back of the printed subscripts by the parser is a THEOREM here (`Einsum.parseSubscripts_readback`,
FuraxProofs/Lemmas/SplitOnReadBack.lean): no hypothesis on `String.splitOn` is left.
-/
import FuraxProofs.Sem.ListSemBasic
import FuraxProofs.Sem.DotList
import FuraxProofs.Sem.AddList
import FuraxProofs.Props.C14Eval
import FuraxProofs.Lemmas.SplitOnReadBack
import FuraxModel.DenseCheck
namespace Furax
namespace ListSem
open Op Einsum

/-- the form model of `.T` on a dense leaf -/
theorem transposeOp_dense (u : Nat) (p : Params) :
    transposeOp (.leaf u .dense p) = (dualParams p).map fun p' => .leaf 0 .dense p' := by
  unfold transposeOp dualParams
  simp only [isSymmetricLeaf]
  cases transposedSubscripts p.str <;> rfl

/-! ### the kernel: well-formed outputs, success depends on the shapes only -/

theorem einsumCore_wf {ι : Type} [DecidableEq ι] {α : Type} [Zero α] [_root_.Add α] [Mul α] (Lb Rb Ob : List ι)
    (B x out : Tensor α) (h : einsumCore Lb Rb Ob B x = .ok out) : out.data.length = prodNat out.shape := by
  unfold einsumCore at h
  split at h
  · cases h
    simp [multiIndices_length]
  · cases h

/-- the output of `einsum2` has as many values as its shape says -/
theorem einsum2_wf {α : Type} [Zero α] [_root_.Add α] [Mul α] (subs : String) (B x out : Tensor α)
    (h : einsum2 subs B x = .ok out) : out.data.length = prodNat out.shape := by
  unfold einsum2 einsum2With at h
  cases hp : parseSubscripts subs with
  | error e => simp [hp, bind, Except.bind] at h
  | ok t =>
    obtain ⟨l, r, o⟩ := t
    simp only [hp, bind, Except.bind, einsumTerms] at h
    cases hq : plan .numpy l.toList r.toList o.toList B.rank x.rank with
    | error e => simp [hq] at h
    | ok q =>
      simp only [hq] at h
      exact einsumCore_wf _ _ _ B x out h

/-- acceptance and the output shape depend on the SHAPE of the input only -/
theorem einsum2_ok_of_shape {α : Type} [Zero α] [_root_.Add α] [Mul α] (subs : String) (B x x' o1 : Tensor α)
    (h1 : einsum2 subs B x = .ok o1) (hs : x'.shape = x.shape) :
    ∃ o2, einsum2 subs B x' = .ok o2 ∧ o2.shape = o1.shape := by
  have e := einsum2_shape subs B x
  have e' := einsum2_shape subs B x'
  rw [hs, ← e, h1] at e'
  cases h2 : einsum2 subs B x' with
  | error err => rw [h2] at e'; cases e'
  | ok o2 =>
    rw [h2] at e'
    exact ⟨o2, rfl, by simpa [Except.map] using e'⟩

theorem einsum2_error_of_shape {α : Type} [Zero α] [_root_.Add α] [Mul α] (subs : String) (B x x' : Tensor α) (e : PyErr)
    (h1 : einsum2 subs B x = .error e) (hs : x'.shape = x.shape) :
    ∃ e', einsum2 subs B x' = .error e' := by
  cases h2 : einsum2 subs B x' with
  | error err => exact ⟨err, rfl⟩
  | ok o2 =>
    obtain ⟨o1, h, -⟩ := einsum2_ok_of_shape subs B x' x o2 h2 hs.symm
    rw [h1] at h; cases h

/-! ### (b) linearity: every subscripts string, every block array, every structure -/

/-- the kernel is additive on ALL inputs -/
theorem denseKernel_add (subs : String) (vals : Tensor Rat) (li lo : LeafS) :
    Add (denseKernel subs vals li lo) := by
  intro x y
  unfold denseKernel
  rw [fit_vadd]
  have hl : (fit li.size y).length = (fit li.size x).length := by rw [fit_length, fit_length]
  rw [vadd_eq_zipWith _ _ hl.symm]
  cases h1 : einsum2 subs (castT vals) ⟨li.shape, fit li.size x⟩ with
  | error e =>
    obtain ⟨e2, h2⟩ := einsum2_error_of_shape subs (castT vals) _ ⟨li.shape, fit li.size y⟩ e h1 rfl
    obtain ⟨e3, h3⟩ := einsum2_error_of_shape subs (castT vals) _
      ⟨li.shape, List.zipWith (· + ·) (fit li.size x) (fit li.size y)⟩ e h1 rfl
    rw [h2, h3]; rfl
  | ok o1 =>
    obtain ⟨o2, h2, hs2⟩ := einsum2_ok_of_shape subs (castT vals) _ ⟨li.shape, fit li.size y⟩ o1 h1 rfl
    have h3 := C14.einsum2_add subs (castT vals) ⟨li.shape, fit li.size x⟩ ⟨li.shape, fit li.size y⟩ o1 o2 rfl hl
      h1 h2
    have ht : tadd (⟨li.shape, fit li.size x⟩ : Tensor ℝ) ⟨li.shape, fit li.size y⟩
        = ⟨li.shape, List.zipWith (· + ·) (fit li.size x) (fit li.size y)⟩ := rfl
    rw [ht] at h3
    rw [h2, h3]
    simp only [exData, tadd]
    rw [vadd_eq_zipWith]
    rw [einsum2_wf _ _ _ _ h1, einsum2_wf _ _ _ _ h2, hs2]

/-- the kernel is homogeneous on ALL inputs -/
theorem denseKernel_hom (subs : String) (vals : Tensor Rat) (li lo : LeafS) :
    Hom (denseKernel subs vals li lo) := by
  intro a x
  unfold denseKernel
  rw [fit_map]
  cases h1 : einsum2 subs (castT vals) ⟨li.shape, fit li.size x⟩ with
  | error e =>
    obtain ⟨e2, h2⟩ := einsum2_error_of_shape subs (castT vals) _
      ⟨li.shape, (fit li.size x).map fun v => a * v⟩ e h1 rfl
    rw [h2]; rfl
  | ok o1 =>
    have h3 := C14.einsum2_smul subs (castT vals) ⟨li.shape, fit li.size x⟩ o1 a h1
    have ht : tsmul a (⟨li.shape, fit li.size x⟩ : Tensor ℝ)
        = ⟨li.shape, (fit li.size x).map fun v => a * v⟩ := rfl
    rw [ht] at h3
    rw [h3]
    rfl

/-- **(b) `mv` is additive**, on all inputs (`vadd` pads the shorter vector) — no validity hypothesis -/
theorem denseLeaf_add (p : Params) : Add (denseLeaf p) :=
  perLeaf_vadd _ (denseKernel_add p.str p.vals) _ _

/-- **(b) `mv` is homogeneous** — no validity hypothesis -/
theorem denseLeaf_hom (p : Params) : Hom (denseLeaf p) := fun a x =>
  perLeaf_map _ a (fun li lo x => denseKernel_hom p.str p.vals li lo a x) _ _ x

theorem denseLeafT_add (p : Params) : Add (denseLeafT p) := by
  unfold denseLeafT
  cases dualParams p with
  | error e => intro x y; rfl
  | ok p' => exact denseLeaf_add p'

theorem denseLeafT_hom (p : Params) : Hom (denseLeafT p) := by
  unfold denseLeafT
  cases dualParams p with
  | error e => intro a x; rfl
  | ok p' => exact denseLeaf_hom p'

/-- the entrywise form on vectors of equal length -/
theorem denseLeaf_additive (p : Params) (x y : V) (hxy : x.length = y.length) :
    denseLeaf p (List.zipWith (· + ·) x y) = vadd (denseLeaf p x) (denseLeaf p y) := by
  rw [← vadd_eq_zipWith x y hxy, denseLeaf_add p x y]

/-! ### the validity predicate -/

/-- **one leaf fits the three terms exactly**: the letters have the sizes `d`; the input leaf `li` and the output leaf
`lo` carry the whole ellipsis shape `es` between their letters, the blocks a suffix `eB` of it (all of it, part of it,
or nothing) — no size-1 axis is stretched, the blocks are never broadcast against the input along an axis the input
does not have.  `es = []` when the output has no ellipsis, `eB = []` when the blocks have none. -/
def LeafFits (tl tr tO : Term) (bshape : List Nat) (li lo : LeafS) : Prop :=
  ∃ (d : Char → ℕ) (es eB : List ℕ), eB <:+ es ∧ (tl.ell = false → eB = []) ∧ (tO.ell = true ∨ es = []) ∧
    bshape = tl.pre.map d ++ eB ++ tl.post.map d ∧
    li.shape = tr.pre.map d ++ es ++ tr.post.map d ∧
    lo.shape = tO.pre.map d ++ es ++ tO.post.map d

/-- **a certificate of validity of a dense leaf** (data: the three terms as strings and parsed, the rewritten block
term) -/
structure DenseCert (p : Params) where
  l : String
  r : String
  o : String
  tl : Term
  tr : Term
  tO : Term
  l' : List Char
  /-- `_parse_subscripts` accepts the string -/
  parse : parseSubscripts p.str = .ok (l, r, o)
  /-- the three terms are einsum terms -/
  pl : parseTerm l.toList = .ok tl
  pr : parseTerm r.toList = .ok tr
  po : parseTerm o.toList = .ok tO
  /-- the block term has no blank (the Python constructor removes them) -/
  chars : ∀ c ∈ l.toList, isLetter c = true ∨ c = '.'
  /-- `_get_transposed_subscripts` accepts the three terms -/
  transp : transposeCore (· == '.') l.toList r.toList o.toList = .ok l'
  /-- einsum refuses a repeated output letter -/
  nodup : tO.letters.Nodup
  /-- every input leaf, with the output leaf declared for it, fits the terms exactly -/
  fits : List.Forall₂ (LeafFits tl tr tO p.vals.shape) p.inS.leaves p.outS.leaves

/-- **validity of a dense leaf** -/
def denseOK (p : Params) : Prop := Nonempty (DenseCert p)

/-! ### characters of parsed terms; the rewritten string is read back -/

theorem parseTermAux_chars (cs : List Char) (t0 : Term) :
    ∀ t1, parseTermAux cs t0 = .ok t1 → ∀ c ∈ cs, isLetter c = true ∨ c = ' ' ∨ c = '.' := by
  fun_induction parseTermAux cs t0 with
  | case1 t => intro t1 _ c hc; simp at hc
  | case2 a cs t ha ih =>
    intro t1 h c hc
    rcases List.mem_cons.1 hc with rfl | hc
    · exact Or.inl ha
    · exact ih t1 h c hc
  | case3 a cs t ha hsp ih =>
    intro t1 h c hc
    rcases List.mem_cons.1 hc with rfl | hc
    · exact Or.inr (Or.inl (by simpa using hsp))
    · exact ih t1 h c hc
  | case4 a t ha hsp hdot c1 c2 cs' hcond ih =>
    intro t1 h c hc
    simp only [Bool.and_eq_true, beq_iff_eq] at hcond hdot
    simp only [List.mem_cons] at hc
    rcases hc with rfl | rfl | rfl | hc
    · exact Or.inr (Or.inr hdot)
    · exact Or.inr (Or.inr hcond.1.1)
    · exact Or.inr (Or.inr hcond.1.2)
    · exact ih t1 h c hc
  | case5 => intro t1 h; cases h
  | case6 => intro t1 h; cases h
  | case7 => intro t1 h; cases h

/-- a term that parses contains neither `,` nor `-` -/
theorem parseTerm_clean (cs : List Char) (t : Term) (h : parseTerm cs = .ok t) : ',' ∉ cs ∧ '-' ∉ cs := by
  constructor <;> intro hc <;> rcases parseTermAux_chars cs _ t h _ hc with h | h | h <;> revert h <;> decide

/-- **read-back** for three terms that parse -/
theorem parseSubscripts_terms (l r o : List Char) (tl tr tO : Term) (hl : parseTerm l = .ok tl)
    (hr : parseTerm r = .ok tr) (ho : parseTerm o = .ok tO) :
    parseSubscripts (String.ofList l ++ "," ++ String.ofList r ++ "->" ++ String.ofList o)
      = .ok (String.ofList l, String.ofList r, String.ofList o) :=
  parseSubscripts_readback l r o (parseTerm_clean l tl hl).1 (parseTerm_clean r tr hr).1
    (parseTerm_clean o tO ho).1 (parseTerm_clean r tr hr).2 (parseTerm_clean o tO ho).2

namespace DenseCert
variable {p : Params} (C : DenseCert p)

/-- the rewritten subscripts -/
def str' : String := String.ofList C.l' ++ "," ++ C.r ++ "->" ++ C.o

theorem transposed : transposedSubscripts p.str = .ok C.str' := by
  unfold transposedSubscripts
  simp only [C.parse, C.transp, bind, Except.bind, pure, Except.pure, str']

/-- the parameters of the transposed leaf -/
def dual : Params := { p with inS := p.outS, outS := p.inS, str := C.str' }

theorem dualParams_eq : dualParams p = .ok C.dual := by
  unfold dualParams
  rw [C.transposed]
  rfl

theorem denseLeafT_eq : denseLeafT p = denseLeaf C.dual := by
  unfold denseLeafT
  rw [C.dualParams_eq]

/-- the contracted and the free block letter, and the facts `transposeCore` guarantees -/
theorem spec : ∃ s t : Char, s ≠ t ∧ isLetter s = true ∧ isLetter t = true ∧
    s ∈ C.l.toList ∧ s ∈ C.r.toList ∧ s ∉ C.o.toList ∧ t ∈ C.l.toList ∧ t ∈ C.o.toList ∧ t ∉ C.r.toList ∧
    C.l' = C.l.toList.map (Equiv.swap s t) ∧ C.o.toList.map (Equiv.swap s t) = C.r.toList ∧
    C.r.toList.map (Equiv.swap s t) = C.o.toList := by
  obtain ⟨s, t, hne, hsd, htd, hsl, hsr, hso, htl, hto, htr, hl', hOR, hRO⟩ :=
    transposeCore_spec (· == '.') _ _ _ _ C.transp
  rw [swapAll_eq_map_swap] at hl' hOR hRO
  have hsL : isLetter s = true := (C.chars s hsl).resolve_right (by simpa using hsd)
  have htL : isLetter t = true := (C.chars t htl).resolve_right (by simpa using htd)
  exact ⟨s, t, hne, hsL, htL, hsl, hsr, hso, htl, hto, htr, hl', hOR, hRO⟩

/-- the rewritten block term parses -/
theorem pl' (s t : Char) (hs : isLetter s = true) (ht : isLetter t = true)
    (hl' : C.l' = C.l.toList.map (Equiv.swap s t)) : parseTerm C.l' = .ok (C.tl.map (Equiv.swap s t)) := by
  rw [hl']
  exact parseTerm_map _ (swap_letterPerm s t hs ht) _ _ C.pl

/-- the parser reads the rewritten string back -/
theorem parse' : parseSubscripts C.str' = .ok (String.ofList C.l', C.r, C.o) := by
  obtain ⟨s, t, -, hs, ht, -, -, -, -, -, -, hl', -, -⟩ := C.spec
  have := parseSubscripts_terms C.l' C.r.toList C.o.toList _ _ _ (C.pl' s t hs ht hl') C.pr C.po
  simpa [str', String.ofList_toList] using this

end DenseCert

/-! ### (a) lengths; the declared output structure is honest -/

theorem forall₂_length {α β : Type} {R : α → β → Prop} {l₁ : List α} {l₂ : List β} (h : List.Forall₂ R l₁ l₂) :
    l₁.length = l₂.length := h.length_eq

/-- whatever `p`, as long as there are as many output leaves as input leaves -/
theorem denseLeaf_length_gen (p : Params) (h : p.inS.leaves.length = p.outS.leaves.length) (x : V) :
    (denseLeaf p x).length = p.outS.size :=
  perLeaf_length _ _ _ x h

/-- **(a)** `mv` returns one entry per element of the declared output structure -/
theorem denseLeaf_length (p : Params) (h : denseOK p) (x : V) : (denseLeaf p x).length = p.outS.size := by
  obtain ⟨C⟩ := h
  exact denseLeaf_length_gen p C.fits.length_eq x

theorem denseLeafT_length (p : Params) (h : denseOK p) (y : V) : (denseLeafT p y).length = p.inS.size := by
  obtain ⟨C⟩ := h
  rw [C.denseLeafT_eq]
  exact denseLeaf_length_gen C.dual C.fits.length_eq.symm y

/-- the two evaluations of `einsum2` on a leaf that fits, with everything the theorems below need -/
theorem DenseCert.eval {p : Params} (C : DenseCert p) (li lo : LeafS)
    (hf : LeafFits C.tl C.tr C.tO p.vals.shape li lo) (c d : V) (hc : c.length = li.size)
    (hd : d.length = lo.size) :
    ∃ out1 out2 : Tensor ℝ, einsum2 p.str (castT p.vals) ⟨li.shape, c⟩ = .ok out1 ∧
      einsum2 C.str' (castT p.vals) ⟨lo.shape, d⟩ = .ok out2 ∧
      out1.shape = lo.shape ∧ out2.shape = li.shape ∧ dot out1.data d = dot c out2.data := by
  obtain ⟨dd, es, eB, hBs, hBell, hoell, hB, hx, hy⟩ := hf
  obtain ⟨out1, out2, h1, h2, hs1, hs2, hdot⟩ :=
    einsumTerms_adjoint_ellipsis (α := ℝ) .numpy C.l.toList C.r.toList C.o.toList C.l' C.tl C.tr C.tO C.pl C.pr C.po
      C.chars C.transp C.nodup dd es eB hBs hBell hoell (castT p.vals) ⟨li.shape, c⟩ ⟨lo.shape, d⟩ hB hx hy hc hd
  refine ⟨out1, out2, ?_, ?_, hs1, hs2, hdot⟩
  · rw [C14.einsum2_eq_terms p.str C.l C.r C.o C.parse]; exact h1
  · rw [C14.einsum2_eq_terms C.str' _ C.r C.o C.parse', String.toList_ofList]; exact h2

/-- **(a) no padding, no truncation**: on a leaf that fits, einsum returns exactly the entries of the declared
output leaf -/
theorem denseKernel_length (p : Params) (C : DenseCert p) (li lo : LeafS)
    (hf : LeafFits C.tl C.tr C.tO p.vals.shape li lo) (c : V) :
    (denseKernel p.str p.vals li lo c).length = lo.size := by
  obtain ⟨out1, out2, h1, -, hs1, -, -⟩ :=
    C.eval li lo hf (fit li.size c) (List.replicate lo.size 0) (fit_length _ _) (by simp)
  unfold denseKernel
  rw [h1]
  simp only [exData]
  rw [einsum2_wf _ _ _ _ h1, hs1]
  rfl

/-- **(a) the declared output leaves are the shapes `Einsum.outShape` computes** -/
theorem denseOK_outShape (p : Params) (C : DenseCert p) :
    List.Forall₂ (fun li lo => outShape p.str p.vals.shape li.shape = .ok lo.shape) p.inS.leaves p.outS.leaves := by
  refine C.fits.imp fun li lo hf => ?_
  obtain ⟨out1, out2, h1, -, hs1, -, -⟩ :=
    C.eval li lo hf (List.replicate li.size 0) (List.replicate lo.size 0) (by simp) (by simp)
  have := einsum2_shape p.str (castT p.vals) (⟨li.shape, List.replicate li.size 0⟩ : Tensor ℝ)
  rw [h1] at this
  rw [← hs1]
  exact this.symm

/-! ### (c) the adjoint -/

/-- on one leaf -/
theorem denseKernel_adjoint (p : Params) (C : DenseCert p) (li lo : LeafS)
    (hf : LeafFits C.tl C.tr C.tO p.vals.shape li lo) (c d : V) (hc : c.length = li.size)
    (hd : d.length = lo.size) :
    dot (fit lo.size (denseKernel p.str p.vals li lo c)) d
      = dot c (fit li.size (denseKernel C.str' p.vals lo li d)) := by
  obtain ⟨out1, out2, h1, h2, -, -, hdot⟩ := C.eval li lo hf c d hc hd
  unfold denseKernel
  rw [fit_eq_self hc, fit_eq_self hd, h1, h2]
  simp only [exData]
  rw [dot_fit_left _ _ _ (le_of_eq hd), dot_fit_right _ _ _ (le_of_eq hc)]
  exact hdot

/-- **(c) `denseLeafT p` is the adjoint of `denseLeaf p`** for the Euclidean pairing of flat vectors -/
theorem denseLeaf_adjoint (p : Params) (h : denseOK p) (x y : V) (hx : x.length = p.inS.size)
    (hy : y.length = p.outS.size) : dot (denseLeaf p x) y = dot x (denseLeafT p y) := by
  obtain ⟨C⟩ := h
  rw [C.denseLeafT_eq]
  exact perLeaf_adjoint (LeafFits C.tl C.tr C.tO p.vals.shape) (denseKernel p.str p.vals)
    (denseKernel C.str' p.vals) _ _ C.fits (fun li lo hf c d hc hd => denseKernel_adjoint p C li lo hf c d hc hd)
    x y hx hy

/-- **(c) the form the model of `.T` builds is the dense leaf whose `mv` is `denseLeafT p`** -/
theorem transposeOp_dense_ok (u : Nat) (p : Params) (h : denseOK p) :
    ∃ p', transposeOp (.leaf u .dense p) = .ok (.leaf 0 .dense p') ∧ dualParams p = .ok p' ∧
      denseLeaf p' = denseLeafT p := by
  obtain ⟨C⟩ := h
  refine ⟨C.dual, ?_, C.dualParams_eq, C.denseLeafT_eq.symm⟩
  rw [transposeOp_dense, C.dualParams_eq]
  rfl

/-! ### the rewriting is an involution; the transposed leaf is valid; transposing twice -/

theorem eq_singleton_of_nodup {α : Type} (l : List α) (a : α) (hn : l.Nodup) (h : ∀ b, b ∈ l ↔ b = a) :
    l = [a] := by
  cases l with
  | nil => exact absurd ((h a).2 rfl) (by simp)
  | cons b l =>
    have hb : b = a := (h b).1 (by simp)
    subst hb
    cases l with
    | nil => rfl
    | cons c l =>
      have hc : c = b := (h c).1 (by simp)
      subst hc
      simp at hn

section Involution
variable {ι : Type} [DecidableEq ι]

theorem contracted_nodup (isDot : ι → Bool) (L R O : List ι) : (contracted isDot L R O).Nodup :=
  (nodup_eraseDups _).filter _

theorem freeBlock_nodup (isDot : ι → Bool) (L R O : List ι) : (freeBlock isDot L R O).Nodup :=
  (nodup_eraseDups _).filter _

theorem mem_swapAll (s t a : ι) (L : List ι) : a ∈ swapAll s t L ↔ Equiv.swap s t a ∈ L := by
  rw [swapAll_eq_map_swap, List.mem_map]
  constructor
  · rintro ⟨b, hb, rfl⟩; simpa using hb
  · intro h; exact ⟨_, h, by simp⟩

/-- **`_get_transposed_subscripts` is an involution**: it accepts the subscripts it produced and gives back the
original block term -/
theorem transposeCore_dual (isDot : ι → Bool) (L R O L' : List ι) (h : transposeCore isDot L R O = .ok L') :
    transposeCore isDot L' R O = .ok L := by
  obtain ⟨s, t, hs, ht, hr, hL'⟩ := (transposeCore_ok_iff isDot L R O L').1 h
  obtain ⟨s', t', hne, hsd, htd, hsl, hsr, hso, htl, hto, htr, hl', -, -⟩ := transposeCore_spec isDot L R O L' h
  -- the two letters of `transposeCore_spec` are the ones of `transposeCore_ok_iff`
  have hs1 : s ∈ contracted isDot L R O := by rw [hs]; simp
  have ht1 : t ∈ freeBlock isDot L R O := by rw [ht]; simp
  obtain ⟨hsd, hsL, hsR, hsO⟩ := (mem_contracted isDot L R O s).1 hs1
  obtain ⟨htd, htL, htO, htR⟩ := (mem_freeBlock isDot L R O t).1 ht1
  have hst : s ≠ t := fun e => htR (e ▸ hsR)
  refine (transposeCore_ok_iff isDot L' R O L).2 ⟨s, t, ?_, ?_, hr, ?_⟩
  · apply eq_singleton_of_nodup _ _ (contracted_nodup _ _ _ _)
    intro a
    rw [mem_contracted, hL', mem_swapAll]
    constructor
    · rintro ⟨had, haL, haR, haO⟩
      by_contra hne
      by_cases hat : a = t
      · exact htR (hat ▸ haR)
      · rw [Equiv.swap_apply_of_ne_of_ne hne hat] at haL
        have : a ∈ contracted isDot L R O := (mem_contracted isDot L R O a).2 ⟨had, haL, haR, haO⟩
        rw [hs] at this
        exact hne (by simpa using this)
    · rintro rfl
      exact ⟨hsd, by simpa using htL, hsR, hsO⟩
  · apply eq_singleton_of_nodup _ _ (freeBlock_nodup _ _ _ _)
    intro a
    rw [mem_freeBlock, hL', mem_swapAll]
    constructor
    · rintro ⟨had, haL, haO, haR⟩
      by_contra hne
      by_cases has : a = s
      · exact hsO (has ▸ haO)
      · rw [Equiv.swap_apply_of_ne_of_ne has hne] at haL
        have : a ∈ freeBlock isDot L R O := (mem_freeBlock isDot L R O a).2 ⟨had, haL, haO, haR⟩
        rw [ht] at this
        exact hne (by simpa using this)
    · rintro rfl
      exact ⟨htd, by simpa using hsL, htO, htR⟩
  · rw [hL', swapAll_swapAll]

end Involution

theorem Term.map_map_swap (s t : Char) (T : Term) : (T.map (Equiv.swap s t)).map (Equiv.swap s t) = T := by
  cases T
  simp [Term.map, List.map_map, Function.comp_def]

namespace DenseCert
variable {p : Params} (C : DenseCert p)

/-- **the certificate of the transposed leaf**, given the two letters that `transposeCore` exchanges -/
def dualCert (s t : Char) (hs : isLetter s = true) (ht : isLetter t = true)
    (hl' : C.l' = C.l.toList.map (Equiv.swap s t))
    (hRO : C.r.toList.map (Equiv.swap s t) = C.o.toList) : DenseCert C.dual where
  l := String.ofList C.l'
  r := C.r
  o := C.o
  tl := C.tl.map (Equiv.swap s t)
  tr := C.tr
  tO := C.tO
  l' := C.l.toList
  parse := C.parse'
  pl := by rw [String.toList_ofList]; exact C.pl' s t hs ht hl'
  pr := C.pr
  po := C.po
  chars := by
    intro c hc
    rw [String.toList_ofList, hl', List.mem_map] at hc
    obtain ⟨b, hb, rfl⟩ := hc
    rcases C.chars b hb with h | h
    · left
      exact ((swap_letterPerm s t hs ht).letter b).trans h
    · right
      have hb' : isLetter b = false := by rw [h]; decide
      have hbs : b ≠ s := fun e => by rw [e, hs] at hb'; cases hb'
      have hbt : b ≠ t := fun e => by rw [e, ht] at hb'; cases hb'
      rw [Equiv.swap_apply_of_ne_of_ne hbs hbt]; exact h
  transp := by rw [String.toList_ofList]; exact transposeCore_dual _ _ _ _ _ C.transp
  nodup := C.nodup
  fits := by
    have htO : C.tO = C.tr.map (Equiv.swap s t) := by
      have := parseTerm_map _ (swap_letterPerm s t hs ht) _ _ C.pr
      rw [hRO, C.po] at this
      exact Except.ok.inj this
    have htr : C.tr = C.tO.map (Equiv.swap s t) := by rw [htO, Term.map_map_swap]
    refine C.fits.flip.imp fun lo li hf => ?_
    obtain ⟨d, es, eB, hBs, hBell, hoell, hB, hx, hy⟩ := hf
    refine ⟨d ∘ Equiv.swap s t, es, eB, hBs, hBell, hoell, ?_, ?_, ?_⟩
    · show p.vals.shape = _
      rw [hB]
      simp [Term.map, List.map_map, Function.comp_def]
    · rw [hy, htO]
      simp [Term.map, List.map_map, Function.comp_def]
    · rw [hx]
      conv_lhs => rw [htr]
      simp [Term.map, List.map_map, Function.comp_def]

end DenseCert

/-- **(c) the transposed leaf is valid** -/
theorem denseOK_dual (p p' : Params) (h : denseOK p) (hd : dualParams p = .ok p') : denseOK p' := by
  obtain ⟨C⟩ := h
  rw [C.dualParams_eq] at hd
  cases hd
  obtain ⟨s, t, -, hs, ht, -, -, -, -, -, -, hl', -, hRO⟩ := C.spec
  exact ⟨C.dualCert s t hs ht hl' hRO⟩

/-- `einsum2` depends on the string through the three terms only -/
theorem denseKernel_congr (s1 s2 : String) (t : String × String × String) (h1 : parseSubscripts s1 = .ok t)
    (h2 : parseSubscripts s2 = .ok t) (vals : Tensor Rat) : denseKernel s1 vals = denseKernel s2 vals := by
  obtain ⟨l, r, o⟩ := t
  funext li lo x
  unfold denseKernel
  rw [C14.einsum2_eq_terms s1 l r o h1, C14.einsum2_eq_terms s2 l r o h2]

/-- **(c) transposing twice gives back the same map**: `A.T.T` has the structures and the block array of `A`, and its
`mv` is the `mv` of `A` (its subscripts are the three terms of `A` printed again) -/
theorem denseLeaf_dual_dual (p : Params) (h : denseOK p) :
    ∃ p' p'', dualParams p = .ok p' ∧ dualParams p' = .ok p'' ∧ denseLeaf p'' = denseLeaf p ∧
      p''.inS = p.inS ∧ p''.outS = p.outS ∧ p''.vals = p.vals ∧ denseLeafT p' = denseLeaf p := by
  obtain ⟨C⟩ := h
  obtain ⟨s, t, -, hs, ht, -, -, -, -, -, -, hl', -, hRO⟩ := C.spec
  let C' := C.dualCert s t hs ht hl' hRO
  have hk : denseKernel C'.str' p.vals = denseKernel p.str p.vals := by
    refine denseKernel_congr _ _ (C.l, C.r, C.o) ?_ C.parse p.vals
    have := C'.parse'
    simpa [C', DenseCert.dualCert, String.ofList_toList] using this
  have hdd : denseLeaf C'.dual = denseLeaf p := by
    show perLeaf (denseKernel C'.str' p.vals) p.inS.leaves p.outS.leaves = _
    rw [hk]; rfl
  refine ⟨C.dual, C'.dual, C.dualParams_eq, C'.dualParams_eq, hdd, rfl, rfl, rfl, ?_⟩
  rw [C'.denseLeafT_eq, hdd]

/-- `A.T.T` denotes `A`, in terms of the form model -/
theorem transposeOp_dense_twice (u : Nat) (p : Params) (h : denseOK p) :
    ∃ p' p'', transposeOp (.leaf u .dense p) = .ok (.leaf 0 .dense p') ∧
      transposeOp (.leaf 0 .dense p') = .ok (.leaf 0 .dense p'') ∧ denseLeaf p'' = denseLeaf p ∧
      denseOK p' ∧ denseOK p'' := by
  obtain ⟨p', p'', h1, h2, h3, -⟩ := denseLeaf_dual_dual p h
  have ok' := denseOK_dual p p' h h1
  refine ⟨p', p'', ?_, ?_, h3, ok', denseOK_dual p' p'' ok' h2⟩
  · rw [transposeOp_dense, h1]; rfl
  · rw [transposeOp_dense, h2]; rfl

/-! ### evaluation: on rational data the kernel over `ℝ` is the cast of the kernel over `ℚ` -/

section Cast
variable {α β : Type} [Semiring α] [Semiring β] (φ : α →+* β)

theorem entryAt_map (t : Tensor α) (idx : List ℕ) : entryAt (t.map φ) idx = φ (entryAt t idx) := by
  unfold entryAt Tensor.map
  simp only
  rw [← map_zero φ, List.getD_map]

theorem coreEntry_mapHom {ι : Type} [DecidableEq ι] (Lb Rb Ob S : List ι) (ss : List ℕ) (B x : Tensor α)
    (oi : List ℕ) :
    coreEntry Lb Rb Ob S ss (B.map φ) (x.map φ) oi = φ (coreEntry Lb Rb Ob S ss B x oi) := by
  unfold coreEntry
  rw [map_list_sum, List.map_map]
  congr 1
  apply List.map_congr_left
  intro si _
  simp only [Function.comp, entryAt_map, map_mul]
  rfl

theorem einsumCore_mapHom {ι : Type} [DecidableEq ι] (Lb Rb Ob : List ι) (B x : Tensor α) :
    einsumCore Lb Rb Ob (B.map φ) (x.map φ) = (einsumCore Lb Rb Ob B x).map (Tensor.map φ) := by
  unfold einsumCore
  have hB : (B.map φ).shape = B.shape := rfl
  have hx : (x.map φ).shape = x.shape := rfl
  rw [hB, hx]
  split
  · simp only [Except.map, Tensor.map, List.map_map]
    congr 2
    apply List.map_congr_left
    intro oi _
    exact coreEntry_mapHom φ _ _ _ _ _ B x oi
  · rfl

theorem einsumTerms_mapHom (dia : Dialect) (l r o : List Char) (B x : Tensor α) :
    einsumTerms dia l r o (B.map φ) (x.map φ) = (einsumTerms dia l r o B x).map (Tensor.map φ) := by
  unfold einsumTerms
  have hB : (B.map φ).rank = B.rank := rfl
  have hx : (x.map φ).rank = x.rank := rfl
  rw [hB, hx]
  cases plan dia l r o B.rank x.rank with
  | error e => rfl
  | ok q => exact einsumCore_mapHom φ _ _ _ B x

end Cast

/-- **evaluating the kernel**: if the subscripts parse to `l,r->o` and the executable einsum over `ℚ` (which the Lean
kernel can run) returns `out` on a rational leaf `c`, the real kernel returns the cast of `out` -/
theorem denseKernel_eval (subs l r o : String) (hp : parseSubscripts subs = .ok (l, r, o)) (vals : Tensor Rat)
    (li lo : LeafS) (c : List Rat) (hc : c.length = li.size) (out : Tensor Rat)
    (h : einsumTerms .numpy l.toList r.toList o.toList vals ⟨li.shape, c⟩ = .ok out) :
    denseKernel subs vals li lo (c.map fun (q : Rat) => (q : ℝ)) = out.data.map fun (q : Rat) => (q : ℝ) := by
  unfold denseKernel
  rw [fit_eq_self (by simpa using hc), C14.einsum2_eq_terms subs l r o hp]
  have := einsumTerms_mapHom (Rat.castHom ℝ) .numpy l.toList r.toList o.toList vals ⟨li.shape, c⟩
  rw [h] at this
  have e : einsumTerms .numpy l.toList r.toList o.toList (castT vals) ⟨li.shape, c.map fun (q : Rat) => (q : ℝ)⟩
      = .ok (out.map (Rat.castHom ℝ)) := this
  rw [e]
  rfl

/-- a structure with one leaf: `mv` is the kernel on that leaf -/
theorem denseLeaf_single (p : Params) (li lo : LeafS) (hi : p.inS.leaves = [li]) (ho : p.outS.leaves = [lo])
    (x : V) (hx : x.length = li.size) :
    denseLeaf p x = fit lo.size (denseKernel p.str p.vals li lo x) := by
  unfold denseLeaf
  rw [hi, ho, perLeaf_cons, perLeaf_nil_left, List.append_nil, headChunk_eq_fit, fit_eq_self hx]

/-! ### the executable check of `denseOK` (FuraxModel/DenseCheck.lean: `fitsB`, `denseCheckTerms`, `denseCheck`) is
sound AND complete -/

/-- the model's `denseSharedb` (FuraxModel/DenseCheck.lean) is `denseShared` -/
theorem denseSharedb_eq (p : Params) : denseSharedb p = denseShared p := rfl

theorem fitsB_sound (tl tr tO : Term) (bshape : List ℕ) (li lo : LeafS) (h : fitsB tl tr tO bshape li lo = true) :
    LeafFits tl tr tO bshape li lo := by
  unfold fitsB at h
  simp only [Bool.and_eq_true, Bool.or_eq_true, beq_iff_eq, List.isSuffixOf_iff_suffix] at h
  obtain ⟨⟨⟨⟨⟨h1, h2⟩, h3⟩, h4⟩, h5⟩, h6⟩ := h
  refine ⟨_, _, _, h1, ?_, h3, h4, h5, h6⟩
  intro he
  rcases h2 with h2 | h2
  · rw [he] at h2; cases h2
  · exact h2

theorem forall₂_of_zip_all {α β : Type} (R : α → β → Prop) (f : α → β → Bool) (hf : ∀ a b, f a b = true → R a b) :
    ∀ (l₁ : List α) (l₂ : List β), l₁.length = l₂.length → ((l₁.zip l₂).all fun q => f q.1 q.2) = true →
      List.Forall₂ R l₁ l₂
  | [], [], _, _ => .nil
  | [], _ :: _, h, _ => by simp at h
  | _ :: _, [], h, _ => by simp at h
  | a :: l₁, b :: l₂, h, hall => by
    simp only [List.zip_cons_cons, List.all_cons, Bool.and_eq_true] at hall
    exact .cons (hf a b hall.1) (forall₂_of_zip_all R f hf l₁ l₂ (by simpa using h) hall.2)

/-- the check is sound, given how the string splits -/
theorem denseOK_of_check (p : Params) (l r o : String) (hp : parseSubscripts p.str = .ok (l, r, o))
    (h : denseCheckTerms l.toList r.toList o.toList p = true) : denseOK p := by
  unfold denseCheckTerms at h
  split at h
  · rename_i tl tr tO l' hl hr ho ht
    simp only [Bool.and_eq_true, beq_iff_eq] at h
    obtain ⟨⟨⟨h1, h2⟩, h3⟩, h4⟩ := h
    refine ⟨{ l := l, r := r, o := o, tl := tl, tr := tr, tO := tO, l' := l', parse := hp, pl := hl, pr := hr,
              po := ho, chars := ?_, transp := ht, nodup := (nodupB_iff _).1 h2, fits := ?_ }⟩
    · intro c hc
      have := List.all_eq_true.1 h1 c hc
      simpa using this
    · exact forall₂_of_zip_all _ _ (fun a b => fitsB_sound tl tr tO p.vals.shape a b) _ _ h3 h4
  · cases h

theorem denseOK_of_denseCheck (p : Params) (h : denseCheck p = true) : denseOK p := by
  unfold denseCheck at h
  split at h
  · rename_i l r o hp
    exact denseOK_of_check p l r o hp h
  · cases h

/-- the check on the string is the check on the three terms the string splits into (the split itself does not reduce
in the Lean kernel; `parseSubscripts_readback` gives it) -/
theorem denseCheck_eq_terms (p : Params) (l r o : String) (hp : parseSubscripts p.str = .ok (l, r, o)) :
    denseCheck p = denseCheckTerms l.toList r.toList o.toList p := by
  unfold denseCheck
  rw [hp]

theorem denseReason_eq_terms (p : Params) (l r o : String) (hp : parseSubscripts p.str = .ok (l, r, o)) :
    denseReason p = denseReasonTerms l.toList r.toList o.toList p := by
  unfold denseReason
  rw [hp]

/-! #### completeness: the shapes determine the witnesses of `LeafFits` -/

theorem zip_map_append {α β : Type} (f : α → β) (r : List β) :
    ∀ l : List α, l.zip (l.map f ++ r) = l.map fun c => (c, f c)
  | [] => by simp
  | a :: l => by simp [zip_map_append f r l]

/-- a lookup in a list of pairs `(c, d c)` returns `d c` -/
theorem letterSizes_eq (d : Char → ℕ) (c : Char) :
    ∀ pairs : List (Char × ℕ), (∀ q ∈ pairs, q.2 = d q.1) → c ∈ pairs.map Prod.fst → letterSizes pairs c = d c
  | [], _, hc => by simp at hc
  | (a, n) :: pairs, h, hc => by
    unfold letterSizes
    by_cases hca : c = a
    · subst hca
      have : n = d c := h (c, n) (by simp)
      simp [List.lookup, this]
    · have hc' : c ∈ pairs.map Prod.fst := by
        simp only [List.map_cons, List.mem_cons] at hc
        exact hc.resolve_left hca
      have hne : (c == a) = false := by simpa using hca
      have ih := letterSizes_eq d c pairs (fun q hq => h q (List.mem_cons_of_mem _ hq)) hc'
      unfold letterSizes at ih
      simp only [List.lookup, hne]
      exact ih

theorem ellShape_fit (d : Char → ℕ) (t : Term) (e : List ℕ) :
    ellShape t (t.pre.map d ++ e ++ t.post.map d) = e := by
  unfold ellShape Term.nLetters
  rw [List.append_assoc, List.drop_left' (by simp)]
  have : (t.pre.map d ++ (e ++ t.post.map d)).length - (t.pre.length + t.post.length) = e.length := by
    simp only [List.length_append, List.length_map]; omega
  rw [this, List.take_left' rfl]

theorem termPairs_fit (d : Char → ℕ) (t : Term) (e : List ℕ) :
    termPairs t (t.pre.map d ++ e ++ t.post.map d) = (t.pre ++ t.post).map fun c => (c, d c) := by
  unfold termPairs
  have h1 : (t.pre.map d ++ e ++ t.post.map d).drop ((t.pre.map d ++ e ++ t.post.map d).length - t.post.length)
      = t.post.map d := by
    apply List.drop_left'
    simp only [List.length_append, List.length_map]; omega
  rw [h1, List.append_assoc, zip_map_append]
  have h2 := zip_map_append d [] t.post
  rw [List.append_nil] at h2
  rw [h2, List.map_append]

/-- **`fitsB` is complete**: the witnesses of `LeafFits` are the ones `fitsB` computes -/
theorem fitsB_complete (tl tr tO : Term) (bshape : List ℕ) (li lo : LeafS) (h : LeafFits tl tr tO bshape li lo) :
    fitsB tl tr tO bshape li lo = true := by
  obtain ⟨d, es, eB, h1, h2, h3, hB, hx, hy⟩ := h
  have hes : ellShape tr li.shape = es := by rw [hx]; exact ellShape_fit d tr es
  have heB : ellShape tl bshape = eB := by rw [hB]; exact ellShape_fit d tl eB
  have key : ∀ c, c ∈ (tl.pre ++ tl.post) ++ (tr.pre ++ tr.post) ++ (tO.pre ++ tO.post) →
      letterSizes (termPairs tl bshape ++ termPairs tr li.shape ++ termPairs tO lo.shape) c = d c := by
    intro c hc
    have hp : termPairs tl bshape ++ termPairs tr li.shape ++ termPairs tO lo.shape
        = ((tl.pre ++ tl.post) ++ (tr.pre ++ tr.post) ++ (tO.pre ++ tO.post)).map fun c => (c, d c) := by
      rw [hB, hx, hy, termPairs_fit, termPairs_fit, termPairs_fit]
      simp only [List.map_append]
    rw [hp]
    apply letterSizes_eq d c
    · intro q hq
      obtain ⟨a, -, rfl⟩ := List.mem_map.1 hq
      rfl
    · rw [List.map_map]
      have : (Prod.fst ∘ fun c => (c, d c)) = id := rfl
      rw [this, List.map_id]
      exact hc
  have m : ∀ l : List Char, (∀ c ∈ l, c ∈ (tl.pre ++ tl.post) ++ (tr.pre ++ tr.post) ++ (tO.pre ++ tO.post)) →
      l.map (letterSizes (termPairs tl bshape ++ termPairs tr li.shape ++ termPairs tO lo.shape)) = l.map d :=
    fun l hl => List.map_congr_left fun c hc => key c (hl c hc)
  unfold fitsB
  simp only [hes, heB, Bool.and_eq_true, Bool.or_eq_true, beq_iff_eq, List.isSuffixOf_iff_suffix]
  rw [m tl.pre (by intro c hc; simp [hc]), m tl.post (by intro c hc; simp [hc]),
    m tr.pre (by intro c hc; simp [hc]), m tr.post (by intro c hc; simp [hc]),
    m tO.pre (by intro c hc; simp [hc]), m tO.post (by intro c hc; simp [hc])]
  refine ⟨⟨⟨⟨⟨h1, ?_⟩, h3⟩, hB⟩, hx⟩, hy⟩
  cases he : tl.ell
  · exact Or.inr (h2 he)
  · exact Or.inl rfl

/-- a certificate passes the check on its three terms -/
theorem denseCheckTerms_of_cert {p : Params} (C : DenseCert p) :
    denseCheckTerms C.l.toList C.r.toList C.o.toList p = true := by
  unfold denseCheckTerms
  simp only [C.pl, C.pr, C.po, C.transp, Bool.and_eq_true, beq_iff_eq, List.all_eq_true]
  refine ⟨⟨⟨?_, (nodupB_iff _).2 C.nodup⟩, C.fits.length_eq⟩, ?_⟩
  · intro c hc
    simpa using C.chars c hc
  · rintro ⟨a, b⟩ hq
    exact fitsB_complete _ _ _ _ a b ((List.forall₂_iff_zip.1 C.fits).2 hq)

/-- **the check is complete**: a valid dense leaf passes it -/
theorem denseCheck_of_denseOK (p : Params) (h : denseOK p) : denseCheck p = true := by
  obtain ⟨C⟩ := h
  rw [denseCheck_eq_terms p C.l C.r C.o C.parse]
  exact denseCheckTerms_of_cert C

/-- **`denseCheck` decides `denseOK`** -/
theorem denseCheck_iff (p : Params) : denseCheck p = true ↔ denseOK p :=
  ⟨denseOK_of_denseCheck p, denseCheck_of_denseOK p⟩

instance (p : Params) : Decidable (denseOK p) := decidable_of_iff _ (denseCheck_iff p)

/-- the diagnostic is `none` exactly when the check passes -/
theorem denseReason_none_iff (p : Params) : denseReason p = none ↔ denseCheck p = true := by
  unfold denseReason denseCheck
  cases parseSubscripts p.str with
  | error e => simp
  | ok t =>
    obtain ⟨l, r, o⟩ := t
    simp only
    unfold denseReasonTerms denseCheckTerms
    cases parseTerm l.toList <;> cases parseTerm r.toList <;> cases parseTerm o.toList <;> simp only <;>
      try simp
    cases transposeCore (fun c => c == '.') l.toList r.toList o.toList <;> simp only
    · split_ifs <;> simp_all
    · split_ifs <;> simp_all
      intro x hx
      by_cases hl : isLetter x = true
      · exact Or.inl hl
      · rename_i h _ _ _
        exact Or.inr (h x hx (by simpa using hl))

end ListSem
end Furax
