/-
(d) the dense matrix of the einsum leaf (FuraxProofs/Sem/DenseLeaf.lean), with the bridge to Mathlib's linear maps
and matrices of FuraxProofs/Sem/LinearList.lean: `linOf` / `matOf` (standalone maps), `denseMatrix`,
`denseMatrix_apply` (columns), `denseLeaf_eq_mulVec`, `denseMatrixT_eq_transpose`; and the instantiation of
`asMatrix` on the leaf operator.
-/
import FuraxProofs.Sem.LinearList
import FuraxProofs.Sem.DenseLeaf
namespace Furax
namespace ListSem
open Op Einsum

/-! ### (d) the dense matrix -/

section MatrixBridge
open Matrix

/-- the linear map `ℝⁿ → ℝᵐ` of an additive and homogeneous map of flat vectors (the standalone form of
`toLinearMapN`, FuraxProofs/Sem/LinearList.lean) -/
noncomputable def linOf (f : V → V) (hadd : Add f) (hhom : Hom f) (n m : Nat) :
    (Fin n → ℝ) →ₗ[ℝ] (Fin m → ℝ) where
  toFun v := toFn m (f (List.ofFn v))
  map_add' v w := by rw [ofFn_add, hadd, toFn_vadd]
  map_smul' a v := by
    rw [ofFn_smul, hhom, toFn_smul]
    rfl

/-- its matrix (`as_matrix()`) -/
noncomputable def matOf (f : V → V) (hadd : Add f) (hhom : Hom f) (n m : Nat) : Matrix (Fin m) (Fin n) ℝ :=
  LinearMap.toMatrix' (linOf f hadd hhom n m)

/-- column `j` is the image of the `j`-th basis vector -/
theorem matOf_apply (f : V → V) (hadd : Add f) (hhom : Hom f) (n m : Nat) (i : Fin m) (j : Fin n) :
    matOf f hadd hhom n m i j = (f (unitVec n j)).getD i 0 := by
  rw [matOf, C04.generic_as_matrix_columns]
  show toFn m (f (List.ofFn (Pi.single j (1 : ℝ)))) i = _
  rw [ofFn_single]
  rfl

/-- the map is multiplication by its matrix -/
theorem eq_matOf_mulVec (f : V → V) (hadd : Add f) (hhom : Hom f) (n m : Nat) (hlen : ∀ x, (f x).length = m)
    (v : Fin n → ℝ) : f (List.ofFn v) = List.ofFn (matOf f hadd hhom n m *ᵥ v) := by
  rw [matOf, C04.mv_eq_as_matrix_mulVec]
  exact (ofFn_toFn m _ (hlen _)).symm

/-- the matrix of an adjoint is the transpose -/
theorem matOf_of_adjoint (f g : V → V) (hf : Add f) (hf' : Hom f) (hg : Add g) (hg' : Hom g) (n m : Nat)
    (h : ∀ (v : Fin n → ℝ) (w : Fin m → ℝ),
      dot (f (List.ofFn v)) (List.ofFn w) = dot (List.ofFn v) (g (List.ofFn w))) :
    matOf g hg hg' m n = (matOf f hf hf' n m)ᵀ := by
  ext j i
  rw [Matrix.transpose_apply, matOf, matOf, C04.generic_as_matrix_columns, C04.generic_as_matrix_columns]
  show toFn n (g (List.ofFn (Pi.single i (1 : ℝ)))) j = toFn m (f (List.ofFn (Pi.single j (1 : ℝ)))) i
  have := h (Pi.single j 1) (Pi.single i 1)
  rw [dot_ofFn_left, dot_comm, dot_ofFn_left, single_one_dotProduct, single_one_dotProduct] at this
  exact this.symm

/-- **the dense matrix of the einsum leaf**, `p.outS.size × p.inS.size` -/
noncomputable def denseMatrix (p : Params) : Matrix (Fin p.outS.size) (Fin p.inS.size) ℝ :=
  matOf (denseLeaf p) (denseLeaf_add p) (denseLeaf_hom p) p.inS.size p.outS.size

/-- the dense matrix of its transpose -/
noncomputable def denseMatrixT (p : Params) : Matrix (Fin p.inS.size) (Fin p.outS.size) ℝ :=
  matOf (denseLeafT p) (denseLeafT_add p) (denseLeafT_hom p) p.outS.size p.inS.size

/-- **(d) column `j` of the matrix is `denseLeaf p (e_j)`** -/
theorem denseMatrix_apply (p : Params) (i : Fin p.outS.size) (j : Fin p.inS.size) :
    denseMatrix p i j = (denseLeaf p (unitVec p.inS.size j)).getD i 0 := matOf_apply ..

theorem denseMatrixT_apply (p : Params) (i : Fin p.inS.size) (j : Fin p.outS.size) :
    denseMatrixT p i j = (denseLeafT p (unitVec p.outS.size j)).getD i 0 := matOf_apply ..

/-- **(d) `mv` is multiplication by the matrix** -/
theorem denseLeaf_eq_mulVec (p : Params) (h : denseOK p) (v : Fin p.inS.size → ℝ) :
    denseLeaf p (List.ofFn v) = List.ofFn (denseMatrix p *ᵥ v) :=
  eq_matOf_mulVec _ _ _ _ _ (denseLeaf_length p h) v

theorem denseLeafT_eq_mulVec (p : Params) (h : denseOK p) (w : Fin p.outS.size → ℝ) :
    denseLeafT p (List.ofFn w) = List.ofFn (denseMatrixT p *ᵥ w) :=
  eq_matOf_mulVec _ _ _ _ _ (denseLeafT_length p h) w

/-- **(d) the matrix of `denseLeafT` is the transpose of the matrix of `denseLeaf`** -/
theorem denseMatrixT_eq_transpose (p : Params) (h : denseOK p) : denseMatrixT p = (denseMatrix p)ᵀ :=
  matOf_of_adjoint _ _ _ _ _ _ _ _ fun v w => denseLeaf_adjoint p h _ _ (by simp) (by simp)

/-! #### the closed denotation of the leaf operator (shared block array): whatever the environment -/

theorem den_dense (E : Env) (p : Params) (hs : denseShared p = true) (u : Nat) (x : V) :
    den E (.leaf u .dense p) x = fit p.outS.size (denseLeaf p (fit p.inS.size x)) := by
  simp [den, leafDen, squareLeaf, hs]

theorem denT_dense (E : Env) (p : Params) (hs : denseShared p = true) (u : Nat) (y : V) :
    denT E (.leaf u .dense p) y = fit p.inS.size (denseLeafT p (fit p.outS.size y)) := by
  simp [denT, leafDenT, squareLeaf, hs]

/-- a valid dense leaf with a shared block array is a valid expression for the closed adjoint theorems (C03), and
it needs NOTHING of the environment -/
theorem dense_validT (u : Nat) (p : Params) (hs : denseShared p = true) (h : denseOK p) :
    ValidT (.leaf u .dense p) ∧ (Op.leaf u .dense p).WFT ∧
      AllLeaves (fun _ c p => isEnvLeaf c p = false) (.leaf u .dense p) := by
  refine ⟨⟨⟨fun _ => h, by simp⟩, fun _ => hs⟩, ?_, ?_⟩
  · simp [Op.WFT, isSymmetricLeaf]
  · simp [AllLeaves, isEnvLeaf, hs]

/-- **`asMatrix` of the leaf operator (Sem/LinearList.lean) is `denseMatrix`**, for every environment -/
theorem asMatrix_dense (E : Env) (hE : EnvAdd E) (p : Params) (hs : denseShared p = true) (h : denseOK p)
    (u : Nat) : asMatrix E hE (.leaf u .dense p) p.inS.size p.outS.size = denseMatrix p := by
  ext i j
  rw [asMatrix_apply, denseMatrix_apply, den_dense E p hs, fit_eq_self (unitVec_length _ _),
    fit_eq_self (denseLeaf_length p h _)]

/-- **C03 ∧ C04 on a dense leaf, closed**: the dense matrix of the form `op.T` that the model computes is the
transpose of the dense matrix of `op` — an instance of the general `asMatrix_transposeOp`, with NO assumption on the
environment -/
theorem asMatrix_dense_transposeOp (E : Env) (hE : EnvAdd E) (p : Params) (hs : denseShared p = true)
    (h : denseOK p) (u : Nat) (t : Op) (ht : transposeOp (.leaf u .dense p) = .ok t) :
    asMatrix E hE t p.outS.size p.inS.size = (asMatrix E hE (.leaf u .dense p) p.inS.size p.outS.size)ᵀ := by
  obtain ⟨hv, hw, hI⟩ := dense_validT u p hs h
  have := asMatrix_transposeOp E hE (.leaf u .dense p) t (envAdjOn_of_noEnvLeaf E _ hI)
    (envSymOn_of_noEnvLeaf E _ hI) hv hw ht
  simpa [outSize, inSize, Op.outS, Op.inS, squareLeaf] using this

end MatrixBridge

end ListSem
end Furax
