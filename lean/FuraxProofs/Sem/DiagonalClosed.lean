/-
Helper lemmas of FuraxProofs/Props/C11Closed.lean: the entries of the ONE vector `diagVec p` a valid `DiagonalOperator`
multiplies by (FuraxProofs/Sem/InverseList.lean), leaf by leaf, through the closed form of `Diagonal.apply`
(`apply_general`, FuraxProofs/Lemmas/DiagonalSpec.lean).

1.  `DiagLeafFacts`: what the acceptance of the strict product on a leaf of shape `sh` implies when there are as many
    destination axes as dimensions of the values: the values are not a scalar, the normalised axes are pairwise
    distinct and lie inside the leaf's rank (no dimension is added on either side), every dimension of the values is
    `1` or the leaf's dimension along its destination axis (`diagLeafFacts_of_ok`);
2.  `leafDiag_getD`: entry `q` of the values broadcast to the leaf is
    `values[(multi-index of q)[axis_k] for k < rank(values), 0 where values.shape[k] = 1]`;
3.  entries of concatenations (`flatten_getD_offset`, `zipWith_getD`), hence of `diagVec p` (`diagVec_getD`).
-/
import FuraxProofs.Sem.InverseList
import FuraxProofs.Sem.BlockMatrixList
namespace Furax
namespace ListSem
open Furax.Diagonal Furax.Axes

/-! ### 1. what the acceptance of a leaf implies -/

/-- the destination of the `k`-th dimension of the values in a leaf of rank `n`: `axis_destination[k]`, counted from
the end of the leaf when negative -/
def destAxis (axes : List Int) (n k : Nat) : Nat := ((normalizedAxes axes n).getD k 0).toNat

/-- the multi-index into the values read at the multi-index `idx` of the leaf: coordinate `idx[destAxis k]` along
dimension `k` of the values, `0` where the values have length `1` (NumPy broadcasting) -/
def diagIndex (vshape : List Nat) (axes : List Int) (n : Nat) (idx : List Nat) : List Nat :=
  (List.range vshape.length).map fun k => if vshape.getD k 0 = 1 then 0 else idx.getD (destAxis axes n k) 0

structure DiagLeafFacts (vshape : List Nat) (axes : List Int) (sh : List Nat) : Prop where
  rank_pos : vshape ≠ []
  nodup : (normalizedAxes axes sh.length).Nodup
  inrange : ∀ a ∈ normalizedAxes axes sh.length, 0 ≤ a ∧ a < sh.length
  dims : ∀ k, k < vshape.length → vshape.getD k 0 = 1 ∨ vshape.getD k 0 = sh.getD (destAxis axes sh.length k) 0

theorem ones_getD (n i : Nat) (h : i < n) (d : ℝ) : (List.replicate n (1 : ℝ)).getD i d = 1 := by
  rw [List.getD_eq_getElem _ _ (by simpa using h)]
  simp

theorem zipWith_getD (D x : V) (i : Nat) (h1 : i < D.length) (h2 : i < x.length) :
    (List.zipWith (· * ·) D x).getD i 0 = D.getD i 0 * x.getD i 0 := by
  rw [List.getD_eq_getElem _ _ (by simp; omega), List.getD_eq_getElem _ _ h1, List.getD_eq_getElem _ _ h2]
  simp

theorem destAxes_getD (ax : List Int) (hL : leftDims ax = 0) (k : Nat) (hk : k < ax.length) :
    (destAxes ax).getD k 0 = (ax.getD k 0).toNat := by
  unfold destAxes
  rw [List.getD_eq_getElem _ _ (by simpa using hk), List.getD_eq_getElem _ _ hk, hL]
  simp

theorem padShape_zero (xs : List Nat) : padShape 0 0 xs = xs := by simp [padShape]

theorem leftDims_zero (ax : List Int) (h : leftDims ax = 0) : ∀ a ∈ ax, 0 ≤ a := by
  intro a ha
  have := minInt_le ax a ha
  unfold leftDims at h
  omega

theorem rightDims_zero (ax : List Int) (n : Nat) (h : rightDims ax n = 0) : ∀ a ∈ ax, a < n := by
  intro a ha
  have := le_maxInt ax a ha
  unfold rightDims at h
  omega

theorem outShape_length (vs d X : List Nat) : (outShape vs d X).length = X.length := by simp [outShape]

/-- **the acceptance of the strict product on ONE leaf (any data) implies the side conditions of the closed form**,
and the values broadcast to the leaf are read at `diagIndex` -/
theorem diag_leaf_closed (W : Tensor ℝ) (axes : List Int) (sh : List Nat) (c0 : V) (y0 : Tensor ℝ)
    (hlen : axes.length = W.shape.length)
    (h : Diagonal.apply true W (.seq axes) ⟨sh, c0⟩ = .ok y0) :
    DiagLeafFacts W.shape axes sh ∧
    ∀ q, q < prodNat sh →
      (leafDiag W axes sh).getD q 0 = W.data.getD (ravelIdx W.shape (diagIndex W.shape axes sh.length (unravel sh q))) 0 := by
  -- the product is accepted on the leaf of ones, and gives the broadcast values themselves
  obtain ⟨hDlen, hform, -⟩ := diag_leaf_form W axes sh c0 y0 h
  have hone := hform id rfl (List.replicate (prodNat sh) 1) (by simp)
  rw [tensor_map_id, List.map_id] at hone
  set x : Tensor ℝ := ⟨sh, List.replicate (prodNat sh) 1⟩ with hx
  have hxs : x.shape = sh := rfl
  set ax := normalizedAxes axes sh.length with hax
  have hax' : ax = normalizedAxes (normalizeSpec W.shape.length (.seq axes)) x.shape.length := rfl
  have hlen' : ax.length = W.shape.length := by rw [hax, normalizedAxes_length, hlen]
  -- the values are not a scalar
  have hv : W.shape ≠ [] := by
    intro e
    rw [apply_rejects_scalar_values true W (.seq axes) x e] at hone
    cases hone
  -- the axes are pairwise distinct
  have hnd : ax.Nodup := by
    by_contra hn
    rw [apply_rejects_duplicate_axes' true W (.seq axes) x hv hn] at hone
    cases hone
  -- every dimension is compatible
  have hc : ∀ k, k < W.shape.length →
      bcompat (W.shape.getD k 0)
        ((padShape (leftDims ax) (rightDims ax x.shape.length) x.shape).getD ((destAxes ax).getD k 0) 0) := by
    intro k hk
    by_contra hn
    rw [apply_rejects_incompatible true W x (.seq axes) ax hax' hv hlen' hnd k hk hn] at hone
    cases hone
  obtain ⟨y, hy, hys, hyl, hyd⟩ := apply_general true W x (.seq axes) ax hax' hv hlen' hnd hc
  rw [hone] at hy
  have hysh : y.shape = sh ∧ y = ⟨sh, List.zipWith (· * ·) (leafDiag W axes sh) (List.replicate (prodNat sh) 1)⟩ := by
    by_cases hb : (true && y.shape != x.shape) = true
    · rw [if_pos hb] at hy; cases hy
    · rw [if_neg hb] at hy
      have : y.shape = x.shape := by simpa using hb
      exact ⟨this, (Except.ok.inj hy).symm⟩
  obtain ⟨hysh, hyeq⟩ := hysh
  -- no dimension is added
  have hLR : leftDims ax = 0 ∧ rightDims ax sh.length = 0 := by
    have := congrArg List.length hys
    rw [hysh, outShape_length] at this
    simp only [padShape, List.length_append, List.length_replicate, hxs] at this
    omega
  obtain ⟨hL, hR⟩ := hLR
  have hnn := leftDims_zero ax hL
  have hlt := rightDims_zero ax sh.length hR
  have hdest : ∀ k, k < W.shape.length → (destAxes ax).getD k 0 = destAxis axes sh.length k := by
    intro k hk
    rw [destAxes_getD ax hL k (by omega)]
    rfl
  have hpad : padShape (leftDims ax) (rightDims ax x.shape.length) x.shape = sh := by
    rw [hL, hxs, hR, padShape_zero]
  -- the dimensions: 1, or the leaf's
  obtain ⟨order, -, S⟩ := reshapeDiagonal_ok W ax sh.length hlen' hnd
  rw [hL, hR] at S
  simp only [Nat.zero_add, Nat.add_zero] at S
  have hdims : ∀ k, k < W.shape.length →
      W.shape.getD k 0 = 1 ∨ W.shape.getD k 0 = sh.getD (destAxis axes sh.length k) 0 := by
    intro k hk
    have e := S.out_shape_dest sh rfl k hk
    rw [S.out_shape_explicit sh rfl] at e
    rw [hpad] at hys
    rw [← hys, hysh, hdest k hk] at e
    unfold bdim at e
    by_cases h1 : W.shape.getD k 0 = 1
    · exact Or.inl h1
    · rw [if_neg h1] at e
      exact Or.inr e.symm
  refine ⟨⟨hv, hnd, fun a ha => ⟨hnn a ha, hlt a ha⟩, hdims⟩, fun q hq => ?_⟩
  have hq' : q < prodNat y.shape := by rw [hysh]; exact hq
  have e := hyd q hq'
  rw [hysh] at e
  -- the left-hand side: the broadcast values times one
  have e1 : y.data.getD q default = (leafDiag W axes sh).getD q 0 := by
    rw [hyeq]
    show (List.zipWith (· * ·) (leafDiag W axes sh) (List.replicate (prodNat sh) 1)).getD q 0 = _
    rw [zipWith_getD _ _ q (by omega) (by simpa using hq), ones_getD _ _ hq, mul_one]
  -- the leaf of ones is read inside its range
  have e2 : x.data.getD (ravelIdx x.shape ((List.range x.shape.length).map fun j =>
      if x.shape.getD j 0 = 1 then 0 else (unravel sh q).getD (leftDims ax + j) 0)) default = 1 := by
    refine ones_getD _ _ ?_ _
    rw [hxs, hL]
    refine (ma_ravel_valid sh _ ?_).1
    obtain ⟨v1, -⟩ := ma_unravel_valid sh q hq
    rw [forall2_lt_iff] at v1 ⊢
    refine ⟨by simp, fun j hj => ?_⟩
    rw [List.getD_eq_getElem _ _ (by simpa using hj)]
    simp only [List.getElem_map, List.getElem_range, Nat.zero_add]
    have := v1.2 j hj
    split
    · omega
    · exact this
  rw [e1, e2, mul_one] at e
  rw [e]
  show W.data.getD _ 0 = W.data.getD _ 0
  congr 2
  unfold diagIndex
  apply List.map_congr_left
  intro k hk
  rw [hdest k (List.mem_range.mp hk)]

/-! ### 2. concatenations -/

/-- entry `q` of block `k` of a concatenation sits at `offset + q` -/
theorem flatten_getD_offset (L : List V) (k q : Nat) (hk : k < L.length) (hq : q < (L.getD k []).length) :
    L.flatten.getD (offset (L.map List.length) k + q) 0 = (L.getD k []).getD q 0 := by
  induction L generalizing k with
  | nil => simp at hk
  | cons r L ih =>
    cases k with
    | zero =>
      simp only [List.getD_cons_zero] at hq
      rw [offset_zero, Nat.zero_add, List.flatten_cons, List.getD_append _ _ _ _ hq]
      rfl
    | succ k =>
      simp only [List.getD_cons_succ] at hq
      rw [List.map_cons, offset_cons_succ, List.flatten_cons,
        List.getD_append_right _ _ _ _ (by omega), List.getD_cons_succ,
        ← ih k (by simpa using hk) hq]
      congr 1
      omega

theorem offset_add_lt (ns : List Nat) (k q : Nat) (hk : k < ns.length) (hq : q < ns.getD k 0) :
    offset ns k + q < ns.sum := by
  induction ns generalizing k with
  | nil => simp at hk
  | cons n ns ih =>
    cases k with
    | zero => simp only [List.getD_cons_zero] at hq; simp; omega
    | succ k =>
      simp only [List.getD_cons_succ] at hq
      have := ih k (by simpa using hk) hq
      rw [offset_cons_succ, List.sum_cons]
      omega

/-! ### 3. the entries of `diagVec p` -/

theorem diagVec_getD (p : Params) (h : diagonalOK p) (k q : Nat) (hk : k < p.inS.leaves.length)
    (hq : q < (p.inS.leaves.getD k default).size) :
    (diagVec p).getD (offset (p.inS.leaves.map LeafS.size) k + q) 0
      = (leafDiag (castT p.vals) (p.ints.getD 0 []) (p.inS.leaves.getD k default).shape).getD q 0 := by
  unfold diagVec diagVecOf
  set L := p.inS.leaves.map fun l => leafDiag (castT p.vals) (p.ints.getD 0 []) l.shape with hL
  have hlens : L.map List.length = p.inS.leaves.map LeafS.size := by
    rw [hL, List.map_map]
    apply List.map_congr_left
    intro l hl
    obtain ⟨y, hy, -⟩ := h l hl []
    exact (diag_leaf_form _ _ l.shape [] y hy).1
  have hLk : L.getD k [] = leafDiag (castT p.vals) (p.ints.getD 0 []) (p.inS.leaves.getD k default).shape := by
    rw [hL, List.getD_eq_getElem _ _ (by simpa using hk), List.getD_eq_getElem _ _ hk]
    simp
  have hkl : (p.inS.leaves.getD k default) ∈ p.inS.leaves := by
    rw [List.getD_eq_getElem _ _ hk]; exact List.getElem_mem _
  rw [← hlens, flatten_getD_offset L k q (by rw [hL]; simpa using hk) ?_, hLk]
  rw [hLk]
  obtain ⟨y, hy, -⟩ := h _ hkl []
  rw [(diag_leaf_form _ _ _ [] y hy).1]
  exact hq

theorem castT_getD (t : Tensor Rat) (i : Nat) : (castT t).data.getD i 0 = ((t.data.getD i 0 : Rat) : ℝ) := by
  have := List.getD_map (f := fun q : Rat => (q : ℝ)) (l := t.data) (n := i) (d := 0)
  simpa [castT, Tensor.map] using this

/-! ### 4. the broadcasting variant: whatever is accepted obeys the closed form -/

/-- **an accepted product obeys the general closed form** (`apply_general`), strict or not: from the acceptance alone
(and as many destination axes as dimensions of the values) the values are not a scalar, the normalised axes are
pairwise distinct, every dimension is NumPy-compatible with the padded leaf's, and the result is the one
`apply_general` describes -/
theorem apply_ok_closed {α : Type} [Inhabited α] [Mul α] (strict : Bool) (W x y0 : Tensor α) (axes : List Int)
    (hlen : axes.length = W.shape.length) (h : Diagonal.apply strict W (.seq axes) x = .ok y0) :
    W.shape ≠ [] ∧ (normalizedAxes axes x.shape.length).Nodup ∧
    y0.shape = outShape W.shape (destAxes (normalizedAxes axes x.shape.length))
      (padShape (leftDims (normalizedAxes axes x.shape.length))
        (rightDims (normalizedAxes axes x.shape.length) x.shape.length) x.shape) ∧
    y0.data.length = prodNat y0.shape ∧
    ∀ q, q < prodNat y0.shape →
      y0.data.getD q default =
        W.data.getD (ravelIdx W.shape ((List.range W.shape.length).map fun k =>
            if W.shape.getD k 0 = 1 then 0
            else (unravel y0.shape q).getD ((destAxes (normalizedAxes axes x.shape.length)).getD k 0) 0)) default
        * x.data.getD (ravelIdx x.shape ((List.range x.shape.length).map fun j =>
            if x.shape.getD j 0 = 1 then 0
            else (unravel y0.shape q).getD (leftDims (normalizedAxes axes x.shape.length) + j) 0)) default := by
  set ax := normalizedAxes axes x.shape.length with hax
  have hax' : ax = normalizedAxes (normalizeSpec W.shape.length (.seq axes)) x.shape.length := rfl
  have hlen' : ax.length = W.shape.length := by rw [hax, normalizedAxes_length, hlen]
  have hv : W.shape ≠ [] := by
    intro e
    rw [apply_rejects_scalar_values strict W (.seq axes) x e] at h
    cases h
  have hnd : ax.Nodup := by
    by_contra hn
    rw [apply_rejects_duplicate_axes' strict W (.seq axes) x hv hn] at h
    cases h
  have hc : ∀ k, k < W.shape.length →
      bcompat (W.shape.getD k 0)
        ((padShape (leftDims ax) (rightDims ax x.shape.length) x.shape).getD ((destAxes ax).getD k 0) 0) := by
    intro k hk
    by_contra hn
    rw [apply_rejects_incompatible strict W x (.seq axes) ax hax' hv hlen' hnd k hk hn] at h
    cases h
  obtain ⟨y, hy, hys, hyl, hyd⟩ := apply_general strict W x (.seq axes) ax hax' hv hlen' hnd hc
  rw [h] at hy
  have hyy : y0 = y := by
    by_cases hb : (strict && y.shape != x.shape) = true
    · rw [if_pos hb] at hy; cases hy
    · rw [if_neg hb] at hy; exact Except.ok.inj hy
  subst hyy
  exact ⟨hv, hnd, hys, hyl, hyd⟩

end ListSem
end Furax
