/-
The Euclidean pairing of flat real vectors and leaf-wise adjoints (moved out of FuraxProofs/Sem/AdjointList.lean so
that the dense einsum leaf, FuraxProofs/Sem/DenseLeaf.lean, can use them before the leaf-by-leaf adjoint theorem).

`dot x y := (zipWith (· * ·) x y).sum`.
0.  the pairing: `dot_comm`, `dot_append`, `dot_vadd_left/right`, `dot_fit_left/right`, `dot_vsmul_*` …
1.  `perLeaf_adjoint`: leaf-wise maps that are adjoint leaf by leaf are adjoint.
-/
import FuraxProofs.Sem.ListSemBasic
import FuraxProofs.Sem.ContainerLawsList
import Mathlib.Tactic.Ring
namespace Furax
namespace ListSem
open Op

/-- the Euclidean pairing of two flat vectors (the longer one is truncated) -/
def dot (x y : List ℝ) : ℝ := (List.zipWith (· * ·) x y).sum

/-! ### 0. the pairing -/

@[simp] theorem dot_nil_left (y : V) : dot [] y = 0 := by simp [dot]
@[simp] theorem dot_nil_right (x : V) : dot x [] = 0 := by simp [dot]

theorem dot_cons (a b : ℝ) (x y : V) : dot (a :: x) (b :: y) = a * b + dot x y := by
  simp [dot]

theorem dot_comm (x y : V) : dot x y = dot y x := by
  induction x generalizing y with
  | nil => simp
  | cons a x ih =>
    cases y with
    | nil => simp
    | cons b y => rw [dot_cons, dot_cons, ih, mul_comm]

theorem dot_append {a c : V} (b d : V) (h : a.length = c.length) :
    dot (a ++ b) (c ++ d) = dot a c + dot b d := by
  induction a generalizing c with
  | nil =>
    cases c with
    | nil => simp
    | cons _ _ => simp at h
  | cons u a ih =>
    cases c with
    | nil => simp at h
    | cons v c =>
      simp only [List.cons_append, dot_cons]
      rw [ih (by simpa using h)]
      ring

theorem dot_vadd_left (a b y : V) : dot (vadd a b) y = dot a y + dot b y := by
  induction a generalizing b y with
  | nil => simp
  | cons u a ih =>
    cases b with
    | nil => simp
    | cons v b =>
      cases y with
      | nil => simp
      | cons w y =>
        rw [vadd_cons, dot_cons, dot_cons, dot_cons, ih]
        ring

theorem dot_vadd_right (x a b : V) : dot x (vadd a b) = dot x a + dot x b := by
  rw [dot_comm, dot_vadd_left, dot_comm a, dot_comm b]

theorem dot_replicate_zero_left (n : Nat) (y : V) : dot (List.replicate n 0) y = 0 := by
  induction n generalizing y with
  | zero => simp
  | succ n ih =>
    cases y with
    | nil => simp
    | cons b y => rw [List.replicate_succ, dot_cons, ih]; ring

theorem dot_replicate_zero_right (n : Nat) (x : V) : dot x (List.replicate n 0) = 0 := by
  rw [dot_comm, dot_replicate_zero_left]

/-- normalising the length of the left argument to (at least) the length of the right one changes nothing -/
theorem dot_fit_left (n : Nat) (x y : V) (h : y.length ≤ n) : dot (fit n x) y = dot x y := by
  induction n generalizing x y with
  | zero =>
    have : y = [] := List.length_eq_zero_iff.mp (by omega)
    subst this; simp
  | succ n ih =>
    cases y with
    | nil => simp
    | cons b y =>
      cases x with
      | nil =>
        rw [fit_nil, dot_replicate_zero_left]; simp
      | cons a x =>
        rw [fit_succ_cons, dot_cons, dot_cons, ih x y (by simpa using h)]

theorem dot_fit_right (n : Nat) (x y : V) (h : x.length ≤ n) : dot x (fit n y) = dot x y := by
  rw [dot_comm, dot_fit_left n y x h, dot_comm]

theorem dot_vsmul_left (a : Rat) (x y : V) : dot (vsmul a x) y = (a : ℝ) * dot x y := by
  induction x generalizing y with
  | nil => simp [vsmul]
  | cons u x ih =>
    cases y with
    | nil => simp
    | cons v y =>
      have : vsmul a (u :: x) = ((a : ℝ) * u) :: vsmul a x := rfl
      rw [this, dot_cons, dot_cons, ih]
      ring

theorem dot_vsmul_right (a : Rat) (x y : V) : dot x (vsmul a y) = (a : ℝ) * dot x y := by
  rw [dot_comm, dot_vsmul_left, dot_comm]

/-- multiplication by fixed weights is self-adjoint (whatever the lengths) -/
theorem dot_zipWith_mul (w x y : V) :
    dot (List.zipWith (· * ·) w x) y = dot x (List.zipWith (· * ·) w y) := by
  induction w generalizing x y with
  | nil => simp
  | cons a w ih =>
    cases x with
    | nil => simp
    | cons b x =>
      cases y with
      | nil => simp
      | cons c y =>
        simp only [List.zipWith_cons_cons, dot_cons, ih]
        ring

theorem dot_take_drop (n : Nat) (x : V) (a b : V) (ha : a.length = n) (hx : n ≤ x.length) :
    dot x (a ++ b) = dot (x.take n) a + dot (x.drop n) b := by
  conv => lhs; rw [← List.take_append_drop n x]
  exact dot_append _ _ (by rw [List.length_take, ha]; omega)

/-- the pairing in the form of `scatter_adjoint` -/
theorem dot_eq_zip (x y : V) : dot x y = ((x.zip y).map fun p => p.1 * p.2).sum := by
  unfold dot
  rw [List.map_zip_eq_zipWith]
  rfl

/-! ### 1. leaf-wise maps -/

/-- leaf-wise maps that are adjoint leaf by leaf are adjoint -/
theorem perLeaf_adjoint (R : LeafS → LeafS → Prop) (f g : LeafS → LeafS → V → V) (ins outs : List LeafS)
    (h : List.Forall₂ R ins outs)
    (hR : ∀ li lo, R li lo → ∀ c d : V, c.length = li.size → d.length = lo.size →
      dot (fit lo.size (f li lo c)) d = dot c (fit li.size (g lo li d))) :
    ∀ x y : V, x.length = (ins.map LeafS.size).sum → y.length = (outs.map LeafS.size).sum →
      dot (perLeaf f ins outs x) y = dot x (perLeaf g outs ins y) := by
  induction h with
  | nil => intro x y _ _; simp [perLeaf_nil_left]
  | @cons li lo ins outs hr _ ih =>
    intro x y hx hy
    simp only [List.map_cons, List.sum_cons] at hx hy
    rw [perLeaf_cons, perLeaf_cons, dot_comm,
      dot_take_drop lo.size y _ _ (fit_length _ _) (by omega),
      dot_take_drop li.size x _ _ (fit_length _ _) (by omega),
      dot_comm (y.take _), dot_comm (y.drop _),
      ih (x.drop li.size) (y.drop lo.size) (by rw [List.length_drop]; omega) (by rw [List.length_drop]; omega),
      headChunk_of_le (by omega), headChunk_of_le (by omega),
      hR li lo hr (x.take li.size) (y.take lo.size) (by rw [List.length_take]; omega)
        (by rw [List.length_take]; omega)]

/-- the same with the length normalisations of `leafDen` / `leafDenT` -/
theorem leaf_adj_aux (s t : Struct) (R : LeafS → LeafS → Prop) (f g : LeafS → LeafS → V → V)
    (h : List.Forall₂ R s.leaves t.leaves)
    (hR : ∀ li lo, R li lo → ∀ c d : V, c.length = li.size → d.length = lo.size →
      dot (fit lo.size (f li lo c)) d = dot c (fit li.size (g lo li d)))
    (x y : V) (hx : x.length = s.size) (hy : y.length = t.size) :
    dot (fit t.size (perLeaf f s.leaves t.leaves (fit s.size x))) y =
      dot x (fit s.size (perLeaf g t.leaves s.leaves (fit t.size y))) := by
  rw [fit_eq_self hx, fit_eq_self hy, dot_fit_left _ _ _ (le_of_eq hy), dot_fit_right _ _ _ (le_of_eq hx)]
  exact perLeaf_adjoint R f g _ _ h hR x y hx hy

end ListSem
end Furax
