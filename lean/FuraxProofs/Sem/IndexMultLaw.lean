/-
The `TransposeIndexRule` law of the list denotation (FuraxProofs/Sem/ListSem.lean):
`indexᵀ ∘ index` is the diagonal operator of the coverage counts.

A. the position map `Index.indexPositions` of an index tuple with ONE integer array (any rank) on any axis, the
   other entries being full slices `:` or one ellipsis, in closed form (`indexPositions_eval`, `toSels_frag`), and
   the count of the selections of every input position (`count_posFn`);
B. from a specification of the position map of one leaf (`PosSpec`) to the law on the whole pytree
   (`index_mult_of_posSpec`), and validity of the diagonal the rule builds (`diag_valid`);
C. the fragment `indexMultOK` and the law on it (`index_mult_law`), the stages 1-3 as corollaries
   (`index_mult_stage1/2/3`), and the derivation of `indexMultOK` from the hypotheses of `RuleLaws.index_mult`
   (`indexMultOK_of_rule`, `index_mult_rule`).
No hypothesis was found to be missing from the task statement beyond well-formedness: the array has `prod sh`
values, the leaves have at least as many dimensions as the tuple has non-ellipsis entries, and the output structure
is the structure of the indexing result.
-/
import FuraxProofs.Sem.ListSemLaws
import FuraxProofs.Lemmas.GatherScatter
import FuraxProofs.Lemmas.DiagonalSpec
namespace Furax
namespace ListSem
open Op Index Axes

/-! ## A. the position map of an index tuple with one integer array -/

/-! ### `indexPositions`, cut into named pieces -/

def hasArrOf (sels : List Sel) : Bool :=
  sels.any fun s => match s with | .adv .. => true | _ => false

def normE (i : Int) (d : Nat) : Except PyErr Nat :=
  let j := if i < 0 then i + d else i
  if j < 0 ∨ j ≥ d then .error .indexError else .ok j.toNat

def advShapesOf (sels : List Sel) (hasArr : Bool) : List (List Nat) :=
  sels.filterMap fun s => match s with
    | .adv sh _ => some sh
    | .int _ => if hasArr then some [] else none
    | _ => none

def bshapeOf (advShapes : List (List Nat)) : Except PyErr (List Nat) :=
  advShapes.foldlM (fun (acc : List Nat) sh => match broadcastShapes acc sh with
      | some r => .ok r | none => .error .indexError) ([] : List Nat)

def advPosOf (sels : List Sel) (hasArr : Bool) : List Nat :=
  (List.range sels.length).filter fun k => (sels.getD k (.int 0)).isAdv hasArr

def flagsOf (idx : List IdxEntry) (hasArr : Bool) : List Bool :=
  idx.map fun e => match e with
    | .iarr .. | .barr .. => true
    | .int _ => hasArr
    | _ => false

def adjacentOf (flags : List Bool) : Bool :=
  let firstF := flags.idxOf true
  let lastF := flags.length - 1 - flags.reverse.idxOf true
  (List.range flags.length).all fun k => !(firstF ≤ k && k ≤ lastF) || flags.getD k false

def sliceDescsOf (sels : List Sel) : List (Nat × Nat) :=
  (List.range sels.length).filterMap fun k =>
    match sels.getD k (.int 0) with | .slice l => some (k, l.length) | _ => none

def descsOf (hasArr adjacent : Bool) (firstAdv : Nat) (sliceDescs : List (Nat × Nat)) (B : List Nat) :
    List (Option Nat × Nat) :=
  let bDescs : List (Option Nat × Nat) := B.map fun d => (none, d)
  if !hasArr then sliceDescs.map fun p => (some p.1, p.2)
  else if adjacent then
    (sliceDescs.filter (·.1 < firstAdv)).map (fun p => (some p.1, p.2)) ++ bDescs ++
    (sliceDescs.filter (·.1 > firstAdv)).map (fun p => (some p.1, p.2))
  else bDescs ++ sliceDescs.map fun p => (some p.1, p.2)

def bIdxOf (descs : List (Option Nat × Nat)) (oi : List Nat) : List Nat :=
  (List.range descs.length).filterMap fun j =>
    match descs.getD j (none, 0) with | (none, _) => some (oi.getD j 0) | _ => none

def inIdxOf (sels : List Sel) (dims : List Nat) (descs : List (Option Nat × Nat)) (oi bIdx : List Nat) :
    Except PyErr (List Nat) :=
  (List.range sels.length).mapM fun e =>
    match sels.getD e (.int 0) with
    | .int i => normE i (dims.getD e 0)
    | .slice l =>
      let j := (List.range descs.length).find? fun j => (descs.getD j (none, 0)).1 == some e
      .ok (l.getD (oi.getD (j.getD 0) 0) 0)
    | .adv sh vals =>
      normE (vals.getD (ravelIdx sh (bcastIndex sh bIdx)) 0) (dims.getD e 0)

def indexPositions' (shape : List Nat) (idx : List IdxEntry) : Except PyErr (List Nat × List Nat) := do
  let sels ← toSels shape idx
  let hasArr := hasArrOf sels
  let B ← bshapeOf (advShapesOf sels hasArr)
  let descs := descsOf hasArr (adjacentOf (flagsOf idx hasArr)) ((advPosOf sels hasArr).headD 0)
    (sliceDescsOf sels) B
  let outShape := descs.map (·.2)
  let positions ← (List.range (prodNat outShape)).mapM fun k => do
    let oi := unravel outShape k
    let inIdx ← inIdxOf sels shape descs oi (bIdxOf descs oi)
    pure (ravelIdx shape inIdx)
  pure (outShape, positions)

theorem indexPositions_eq' (shape : List Nat) (idx : List IdxEntry) :
    indexPositions shape idx = indexPositions' shape idx := rfl

/-! ### generic helpers -/

private theorem except_mapM_ok {ε β γ : Type} (f : β → Except ε γ) (g : β → γ) (l : List β)
    (h : ∀ b ∈ l, f b = .ok (g b)) : l.mapM f = .ok (l.map g) := by
  induction l with
  | nil => rfl
  | cons b bs ih =>
    rw [List.mapM_cons, h b (by simp), ih (fun c hc => h c (by simp [hc]))]
    rfl

private theorem filterMap_eq_map_of {β γ : Type} (f : β → Option γ) (g : β → γ) (l : List β)
    (h : ∀ b ∈ l, f b = some (g b)) : l.filterMap f = l.map g := by
  induction l with
  | nil => rfl
  | cons b bs ih =>
    rw [List.filterMap_cons, h b (by simp), ih (fun c hc => h c (by simp [hc]))]
    rfl

theorem filterMap_eq_nil_of {β γ : Type} (f : β → Option γ) (l : List β)
    (h : ∀ b ∈ l, f b = none) : l.filterMap f = [] := by
  induction l with
  | nil => rfl
  | cons b bs ih =>
    rw [List.filterMap_cons, h b (by simp), ih (fun c hc => h c (by simp [hc]))]

theorem range_split (a c : Nat) :
    List.range (a + 1 + c) = List.range a ++ a :: (List.range c).map (fun k => a + 1 + k) := by
  rw [List.range_add, List.range_succ, List.append_assoc]
  rfl

theorem prodNat_app (A B : List Nat) : prodNat (A ++ B) = prodNat A * prodNat B := by
  induction A with
  | nil => simp [ma_prodNat_nil]
  | cons d A ih => rw [List.cons_append, ma_prodNat_cons, ma_prodNat_cons, ih, Nat.mul_assoc]

theorem unravel_append (A B : List Nat) (k : Nat) :
    unravel (A ++ B) k = unravel A (k / prodNat B) ++ unravel B k := by
  induction A with
  | nil => simp [ma_unravel_nil]
  | cons d A ih =>
    rw [List.cons_append, ma_unravel_cons, ma_unravel_cons, ih, prodNat_app, Nat.div_div_eq_div_mul,
      Nat.mul_comm (prodNat B)]
    rfl

theorem ravelIdx_append (A B ia ib : List Nat) (ha : ia.length = A.length) (hb : ib.length = B.length) :
    ravelIdx (A ++ B) (ia ++ ib) = ravelIdx A ia * prodNat B + ravelIdx B ib := by
  unfold ravelIdx
  rw [List.zip_append ha.symm, List.foldl_append, ma_ravel_foldl, List.map_fst_zip (by omega)]

theorem ravel_unravel_mod (B : List Nat) (k : Nat) (h : 0 < prodNat B) :
    ravelIdx B (unravel B k) = k % prodNat B := by
  rw [← ma_unravel_mod]
  exact (ma_unravel_valid B _ (Nat.mod_lt _ h)).2

theorem unravel_valid_mod (B : List Nat) (k : Nat) (h : 0 < prodNat B) :
    List.Forall₂ (· < ·) (unravel B k) B := by
  rw [← ma_unravel_mod]
  exact (ma_unravel_valid B _ (Nat.mod_lt _ h)).1

/-! ### the selectors of the fragment -/

/-- the selector of a full slice over a dimension of size `d` -/
def fullSel (d : Nat) : Sel := .slice (List.range d)

/-- full slices over the dimensions `A`, the integer array, full slices over the dimensions `C` -/
def selsOf (A sh : List Nat) (vals : List Int) (C : List Nat) : List Sel :=
  A.map fullSel ++ Sel.adv sh vals :: C.map fullSel

section sels
variable (A sh : List Nat) (vals : List Int) (C : List Nat)

theorem selsOf_length : (selsOf A sh vals C).length = A.length + 1 + C.length := by
  simp [selsOf]; omega

theorem selsOf_getD_lt (k : Nat) (hk : k < A.length) :
    (selsOf A sh vals C).getD k (.int 0) = fullSel (A.getD k 0) := by
  unfold selsOf
  rw [List.getD_append _ _ _ _ (by simpa using hk), List.getD_eq_getElem _ _ (by simpa using hk),
    List.getD_eq_getElem _ _ hk, List.getElem_map]

theorem selsOf_getD_eq : (selsOf A sh vals C).getD A.length (.int 0) = .adv sh vals := by
  unfold selsOf
  rw [List.getD_append_right _ _ _ _ (by simp)]
  simp

theorem selsOf_getD_gt (k : Nat) (hk : k < C.length) :
    (selsOf A sh vals C).getD (A.length + 1 + k) (.int 0) = fullSel (C.getD k 0) := by
  unfold selsOf
  rw [List.getD_append_right _ _ _ _ (by simp; omega)]
  have : A.length + 1 + k - (A.map fullSel).length = k + 1 := by simp; omega
  rw [this, List.getD_cons_succ, List.getD_eq_getElem _ _ (by simpa using hk),
    List.getD_eq_getElem _ _ hk, List.getElem_map]

theorem hasArrOf_selsOf : hasArrOf (selsOf A sh vals C) = true := by
  simp [hasArrOf, selsOf]

theorem advShapesOf_selsOf : advShapesOf (selsOf A sh vals C) true = [sh] := by
  unfold advShapesOf selsOf
  rw [List.filterMap_append, List.filterMap_cons]
  rw [filterMap_eq_nil_of _ (A.map fullSel), filterMap_eq_nil_of _ (C.map fullSel)]
  · rfl
  · intro b hb
    obtain ⟨d, _, rfl⟩ := List.mem_map.mp hb
    rfl
  · intro b hb
    obtain ⟨d, _, rfl⟩ := List.mem_map.mp hb
    rfl

theorem broadcastShapes_nil (s : List Nat) : broadcastShapes [] s = some s := by
  unfold broadcastShapes
  simp only [List.length_nil, Nat.zero_max, Nat.sub_zero, List.append_nil, Nat.sub_self, List.replicate_zero,
    List.nil_append]
  rw [Diagonal.option_mapM_eq_some _ (fun p => p.2)]
  · rw [List.map_snd_zip (by simp)]
  · intro p hp
    have h1 : p.1 = 1 := by
      have := (List.of_mem_zip hp).1
      exact List.eq_of_mem_replicate this
    by_cases h : p.1 = p.2
    · simp [h]
    · simp [h1]

theorem bshapeOf_single : bshapeOf [sh] = .ok sh := by
  simp [bshapeOf, broadcastShapes_nil]

theorem advPosOf_selsOf : advPosOf (selsOf A sh vals C) true = [A.length] := by
  unfold advPosOf
  rw [selsOf_length, range_split, List.filter_append, List.filter_cons]
  rw [selsOf_getD_eq]
  have h1 : (List.range A.length).filter (fun k => ((selsOf A sh vals C).getD k (.int 0)).isAdv true) = [] := by
    rw [List.filter_eq_nil_iff]
    intro k hk
    rw [selsOf_getD_lt A sh vals C k (List.mem_range.mp hk)]
    simp [fullSel, Sel.isAdv]
  have h2 : ((List.range C.length).map (fun k => A.length + 1 + k)).filter
      (fun k => ((selsOf A sh vals C).getD k (.int 0)).isAdv true) = [] := by
    rw [List.filter_eq_nil_iff]
    intro k hk
    obtain ⟨t, ht, rfl⟩ := List.mem_map.mp hk
    rw [selsOf_getD_gt A sh vals C t (List.mem_range.mp ht)]
    simp [fullSel, Sel.isAdv]
  rw [h1, h2]
  simp [Sel.isAdv]

theorem sliceDescsOf_selsOf :
    sliceDescsOf (selsOf A sh vals C)
      = (List.range A.length).map (fun k => (k, A.getD k 0))
        ++ (List.range C.length).map (fun k => (A.length + 1 + k, C.getD k 0)) := by
  unfold sliceDescsOf
  rw [selsOf_length, range_split, List.filterMap_append, List.filterMap_cons, selsOf_getD_eq]
  simp only
  rw [filterMap_eq_map_of _ (fun k => (k, A.getD k 0)) (List.range A.length),
    List.filterMap_map, filterMap_eq_map_of _ (fun k => (A.length + 1 + k, C.getD k 0)) (List.range C.length)]
  · intro k hk
    simp only [Function.comp_apply]
    rw [selsOf_getD_gt A sh vals C k (List.mem_range.mp hk)]
    simp [fullSel]
  · intro k hk
    rw [selsOf_getD_lt A sh vals C k (List.mem_range.mp hk)]
    simp [fullSel]

/-- the output dimension descriptors of the fragment -/
def descsSpec (A sh C : List Nat) : List (Option Nat × Nat) :=
  (List.range A.length).map (fun k => (some k, A.getD k 0)) ++ (sh.map (fun d => ((none : Option Nat), d))
    ++ (List.range C.length).map (fun k => (some (A.length + 1 + k), C.getD k 0)))

theorem descsOf_spec :
    descsOf true true A.length
      ((List.range A.length).map (fun k => (k, A.getD k 0))
        ++ (List.range C.length).map (fun k => (A.length + 1 + k, C.getD k 0))) sh = descsSpec A sh C := by
  unfold descsOf descsSpec
  simp only [Bool.not_true, Bool.false_eq_true, if_false, if_true]
  rw [List.filter_append, List.filter_append]
  have f1 : ((List.range A.length).map (fun k => (k, A.getD k 0))).filter (fun x => decide (x.1 < A.length))
      = (List.range A.length).map (fun k => (k, A.getD k 0)) := by
    rw [List.filter_eq_self]
    intro x hx
    obtain ⟨k, hk, rfl⟩ := List.mem_map.mp hx
    simpa using List.mem_range.mp hk
  have f2 : ((List.range C.length).map (fun k => (A.length + 1 + k, C.getD k 0))).filter
      (fun x => decide (x.1 < A.length)) = [] := by
    rw [List.filter_eq_nil_iff]
    intro x hx
    obtain ⟨k, hk, rfl⟩ := List.mem_map.mp hx
    simp
    omega
  have f3 : ((List.range A.length).map (fun k => (k, A.getD k 0))).filter (fun x => decide (x.1 > A.length))
      = [] := by
    rw [List.filter_eq_nil_iff]
    intro x hx
    obtain ⟨k, hk, rfl⟩ := List.mem_map.mp hx
    have := List.mem_range.mp hk
    simp
    omega
  have f4 : ((List.range C.length).map (fun k => (A.length + 1 + k, C.getD k 0))).filter
      (fun x => decide (x.1 > A.length))
      = (List.range C.length).map (fun k => (A.length + 1 + k, C.getD k 0)) := by
    rw [List.filter_eq_self]
    intro x hx
    obtain ⟨k, hk, rfl⟩ := List.mem_map.mp hx
    simp
    omega
  rw [f1, f2, f3, f4]
  simp [List.map_map, Function.comp_def]

theorem descsSpec_length : (descsSpec A sh C).length = A.length + (sh.length + C.length) := by
  simp [descsSpec]

theorem descsSpec_shape : (descsSpec A sh C).map (·.2) = A ++ (sh ++ C) := by
  simp only [descsSpec, List.map_append, List.map_map, Function.comp_def]
  rw [ma_map_getD_range A, ma_map_getD_range C]
  simp

theorem descsSpec_getD_lt (j : Nat) (hj : j < A.length) :
    (descsSpec A sh C).getD j (none, 0) = (some j, A.getD j 0) := by
  unfold descsSpec
  rw [List.getD_append _ _ _ _ (by simpa using hj), List.getD_eq_getElem _ _ (by simpa using hj)]
  simp

theorem descsSpec_getD_mid (t : Nat) (ht : t < sh.length) :
    (descsSpec A sh C).getD (A.length + t) (none, 0) = (none, sh.getD t 0) := by
  unfold descsSpec
  rw [List.getD_append_right _ _ _ _ (by simp)]
  simp only [List.length_map, List.length_range, Nat.add_sub_cancel_left]
  rw [List.getD_append _ _ _ _ (by simpa using ht), List.getD_eq_getElem _ _ (by simpa using ht),
    List.getD_eq_getElem _ _ ht]
  simp

theorem descsSpec_getD_gt (t : Nat) (ht : t < C.length) :
    (descsSpec A sh C).getD (A.length + (sh.length + t)) (none, 0) = (some (A.length + 1 + t), C.getD t 0) := by
  unfold descsSpec
  rw [List.getD_append_right _ _ _ _ (by simp)]
  simp only [List.length_map, List.length_range, Nat.add_sub_cancel_left]
  rw [List.getD_append_right _ _ _ _ (by simp)]
  simp only [List.length_map, Nat.add_sub_cancel_left]
  rw [List.getD_eq_getElem _ _ (by simpa using ht)]
  simp

theorem range3 (a r c : Nat) :
    List.range (a + (r + c))
      = List.range a ++ ((List.range r).map (fun t => a + t) ++ (List.range c).map (fun t => a + (r + t))) := by
  simp [List.range_add, List.map_append, Function.comp_def]

theorem bIdxOf_spec (oa ob oc : List Nat) (ha : oa.length = A.length) (hb : ob.length = sh.length) :
    bIdxOf (descsSpec A sh C) (oa ++ (ob ++ oc)) = ob := by
  unfold bIdxOf
  rw [descsSpec_length, range3, List.filterMap_append, List.filterMap_append, List.filterMap_map,
    List.filterMap_map]
  rw [filterMap_eq_nil_of _ (List.range A.length), filterMap_eq_nil_of _ (List.range C.length),
    filterMap_eq_map_of _ (fun t => ob.getD t 0) (List.range sh.length)]
  · rw [← hb, ma_map_getD_range ob]
    simp
  · intro t ht
    have ht' := List.mem_range.mp ht
    simp only [Function.comp_apply]
    rw [descsSpec_getD_mid A sh C t ht', List.getD_append_right _ _ _ _ (by omega)]
    simp only [ha, Nat.add_sub_cancel_left]
    rw [List.getD_append _ _ _ _ (by omega)]
  · intro t ht
    have ht' := List.mem_range.mp ht
    simp only [Function.comp_apply]
    rw [descsSpec_getD_gt A sh C t ht']
  · intro t ht
    have ht' := List.mem_range.mp ht
    rw [descsSpec_getD_lt A sh C t ht']

theorem find?_range_first (L j : Nat) (p : Nat → Bool) (hj : j < L) (hp : p j = true)
    (hnp : ∀ i, i < j → p i = false) : (List.range L).find? p = some j := by
  have hL : L = j + 1 + (L - j - 1) := by omega
  rw [hL, range_split, List.find?_append]
  have : (List.range j).find? p = none := by
    rw [List.find?_eq_none]
    intro i hi
    simp [hnp i (List.mem_range.mp hi)]
  rw [this, List.find?_cons, hp]
  rfl

theorem normE_ok (n : Nat) (v : Int) (h : -(n : Int) ≤ v ∧ v < n) : normE v n = .ok (normIdx n v).toNat := by
  have hr := normIdx_range n v h
  show (if normIdx n v < 0 ∨ normIdx n v ≥ n then (.error .indexError : Except PyErr Nat)
    else .ok (normIdx n v).toNat) = _
  rw [if_neg (by omega)]

theorem range_getD_self (d x : Nat) (h : x < d) : (List.range d).getD x 0 = x := by
  rw [List.getD_eq_getElem _ _ (by simpa using h)]
  simp

theorem inIdxOf_spec (n : Nat) (oa ob oc bIdx : List Nat) (ha : oa.length = A.length)
    (hb : ob.length = sh.length) (hc : oc.length = C.length)
    (hva : ∀ j, j < A.length → oa.getD j 0 < A.getD j 0) (hvc : ∀ j, j < C.length → oc.getD j 0 < C.getD j 0)
    (hv : -(n : Int) ≤ vals.getD (ravelIdx sh (bcastIndex sh bIdx)) 0 ∧
      vals.getD (ravelIdx sh (bcastIndex sh bIdx)) 0 < n) :
    inIdxOf (selsOf A sh vals C) (A ++ n :: C) (descsSpec A sh C) (oa ++ (ob ++ oc)) bIdx
      = .ok (oa ++ (normIdx n (vals.getD (ravelIdx sh (bcastIndex sh bIdx)) 0)).toNat :: oc) := by
  unfold inIdxOf
  rw [selsOf_length]
  rw [except_mapM_ok _ (fun e => if e < A.length then oa.getD e 0 else if e = A.length then
    (normIdx n (vals.getD (ravelIdx sh (bcastIndex sh bIdx)) 0)).toNat else oc.getD (e - (A.length + 1)) 0)]
  · congr 1
    rw [range_split, List.map_append, List.map_cons, List.map_map]
    congr 1
    · rw [← ha]
      conv => rhs; rw [← ma_map_getD_range oa]
      apply List.map_congr_left
      intro e he
      rw [if_pos (List.mem_range.mp he)]
    · congr 1
      · simp
      · rw [← hc]
        conv => rhs; rw [← ma_map_getD_range oc]
        apply List.map_congr_left
        intro e he
        simp only [Function.comp_apply]
        rw [if_neg (by omega), if_neg (by omega)]
        congr 1
        omega
  · intro e he
    have he' : e < A.length + 1 + C.length := List.mem_range.mp he
    by_cases h1 : e < A.length
    · rw [selsOf_getD_lt A sh vals C e h1, if_pos h1]
      simp only [fullSel]
      rw [find?_range_first _ e _ (by rw [descsSpec_length]; omega)
        (by rw [descsSpec_getD_lt A sh C e h1]; simp)
        (by
          intro i hi
          rw [descsSpec_getD_lt A sh C i (by omega)]
          simp; omega)]
      simp only [Option.getD_some]
      rw [List.getD_append _ _ _ _ (by omega), range_getD_self _ _ (hva e h1)]
    · by_cases h2 : e = A.length
      · subst h2
        rw [selsOf_getD_eq, if_neg h1, if_pos rfl]
        simp only
        have : (A ++ n :: C).getD A.length 0 = n := by
          rw [List.getD_append_right _ _ _ _ (by simp)]
          simp
        rw [this, normE_ok n _ hv]
      · obtain ⟨t, rfl⟩ : ∃ t, e = A.length + 1 + t := ⟨e - (A.length + 1), by omega⟩
        have ht : t < C.length := by omega
        rw [selsOf_getD_gt A sh vals C t ht, if_neg h1, if_neg h2]
        simp only [fullSel]
        rw [find?_range_first _ (A.length + (sh.length + t)) _ (by rw [descsSpec_length]; omega)
          (by rw [descsSpec_getD_gt A sh C t ht]; simp)
          (by
            intro i hi
            by_cases c1 : i < A.length
            · rw [descsSpec_getD_lt A sh C i c1]
              simp; omega
            · by_cases c2 : i < A.length + sh.length
              · obtain ⟨s, rfl⟩ : ∃ s, i = A.length + s := ⟨i - A.length, by omega⟩
                rw [descsSpec_getD_mid A sh C s (by omega)]
                simp
              · obtain ⟨s, rfl⟩ : ∃ s, i = A.length + (sh.length + s) := ⟨i - A.length - sh.length, by omega⟩
                rw [descsSpec_getD_gt A sh C s (by omega)]
                simp; omega)]
        simp only [Option.getD_some]
        rw [List.getD_append_right _ _ _ _ (by omega)]
        simp only [ha, Nat.add_sub_cancel_left]
        rw [List.getD_append_right _ _ _ _ (by omega)]
        simp only [hb, Nat.add_sub_cancel_left]
        rw [range_getD_self _ _ (hvc t ht)]

end sels

/-! ### adjacency of the advanced entries: a single flag -/

theorem idxOf_replicate_false (p : Nat) (l : List Bool) :
    (List.replicate p false ++ true :: l).idxOf true = p := by
  induction p with
  | zero => simp
  | succ p ih => simp [List.replicate_succ, ih]

theorem adjacentOf_single (p q : Nat) :
    adjacentOf (List.replicate p false ++ true :: List.replicate q false) = true := by
  unfold adjacentOf
  have hrev : (List.replicate p false ++ true :: List.replicate q false).reverse
      = List.replicate q false ++ true :: List.replicate p false := by simp
  simp only [hrev, idxOf_replicate_false, List.length_append, List.length_replicate, List.length_cons]
  rw [List.all_eq_true]
  intro k hk
  have hk' : k < p + (q + 1) := List.mem_range.mp hk
  by_cases h : k = p
  · subst h
    rw [List.getD_append_right _ _ _ _ (by simp)]
    simp
  · have : (decide (p ≤ k) && decide (k ≤ p + (q + 1) - 1 - q)) = false := by
      simp only [Bool.and_eq_false_iff, decide_eq_false_iff_not]
      omega
    rw [this]
    rfl

/-- an entry that is neither an array nor an integer -/
def plainEntry (e : IdxEntry) : Prop := (∃ a b c, e = .slice a b c) ∨ e = .ellipsis

theorem flagsOf_single (pre post : List IdxEntry) (sh : List Nat) (vals : List Int)
    (hpre : ∀ e ∈ pre, plainEntry e) (hpost : ∀ e ∈ post, plainEntry e) :
    flagsOf (pre ++ .iarr sh vals :: post) true
      = List.replicate pre.length false ++ true :: List.replicate post.length false := by
  have key : ∀ l : List IdxEntry, (∀ e ∈ l, plainEntry e) →
      l.map (fun e => match e with
        | .iarr .. | .barr .. => true
        | .int _ => true
        | _ => false) = List.replicate l.length false := by
    intro l hl
    rw [List.eq_replicate_iff]
    refine ⟨by simp, ?_⟩
    intro b hb
    obtain ⟨e, he, rfl⟩ := List.mem_map.mp hb
    rcases hl e he with ⟨a, b, c, rfl⟩ | rfl <;> rfl
  unfold flagsOf
  rw [List.map_append, List.map_cons, key pre hpre, key post hpost]

/-! ### the position map in closed form -/

/-- the normalised index value number `b`, as a natural number -/
def nvf (n : Nat) (vals : List Int) (b : Nat) : Nat := (normIdx n (vals.getD b 0)).toNat

/-- flat input position selected by output element `k`: leading coordinates `k / (M R)`, array element
`k / R % M`, trailing coordinates `k % R` -/
def posFn (n : Nat) (C sh : List Nat) (vals : List Int) (k : Nat) : Nat :=
  (k / (prodNat sh * prodNat C) * n + nvf n vals (k / prodNat C % prodNat sh)) * prodNat C + k % prodNat C

theorem forall2_getD {oi s : List Nat} (h : List.Forall₂ (· < ·) oi s) :
    oi.length = s.length ∧ ∀ j, j < s.length → oi.getD j 0 < s.getD j 0 :=
  (Diagonal.forall2_lt_iff _ _).mp h

theorem indexPositions_eval (A C sh : List Nat) (n : Nat) (vals : List Int) (idx : List IdxEntry)
    (hsels : toSels (A ++ n :: C) idx = .ok (selsOf A sh vals C))
    (hadj : adjacentOf (flagsOf idx true) = true)
    (hvals : ∀ i ∈ vals, -(n : Int) ≤ i ∧ i < n) (hlen : vals.length = prodNat sh) :
    indexPositions (A ++ n :: C) idx
      = .ok (A ++ (sh ++ C), (List.range (prodNat (A ++ (sh ++ C)))).map (posFn n C sh vals)) := by
  rw [indexPositions_eq']
  unfold indexPositions'
  rw [hsels]
  simp only [bind, Except.bind, hasArrOf_selsOf, advShapesOf_selsOf, bshapeOf_single, hadj, advPosOf_selsOf,
    List.headD_cons, sliceDescsOf_selsOf, descsOf_spec, descsSpec_shape]
  rw [except_mapM_ok _ (posFn n C sh vals)]
  · rfl
  · intro k hk
    have hk' : k < prodNat A * (prodNat sh * prodNat C) := by
      have := List.mem_range.mp hk
      rwa [prodNat_app, prodNat_app] at this
    have hP : 0 < prodNat A := Nat.pos_of_mul_pos_right (Nat.zero_lt_of_lt hk')
    have hMR : 0 < prodNat sh * prodNat C := Nat.pos_of_mul_pos_left (Nat.zero_lt_of_lt hk')
    have hM : 0 < prodNat sh := Nat.pos_of_mul_pos_right hMR
    have hR : 0 < prodNat C := Nat.pos_of_mul_pos_left hMR
    have hoi : unravel (A ++ (sh ++ C)) k
        = unravel A (k / (prodNat sh * prodNat C)) ++ (unravel sh (k / prodNat C) ++ unravel C k) := by
      rw [unravel_append, unravel_append, prodNat_app]
    obtain ⟨la, va⟩ := forall2_getD (unravel_valid_mod A (k / (prodNat sh * prodNat C)) hP)
    obtain ⟨lb, vb⟩ := forall2_getD (unravel_valid_mod sh (k / prodNat C) hM)
    obtain ⟨lc, vc⟩ := forall2_getD (unravel_valid_mod C k hR)
    have hb : ravelIdx sh (bcastIndex sh (unravel sh (k / prodNat C))) = k / prodNat C % prodNat sh := by
      rw [Diagonal.bcastIndex_self _ _ (unravel_valid_mod sh (k / prodNat C) hM), ravel_unravel_mod _ _ hM]
    simp only [hoi]
    rw [bIdxOf_spec A sh C _ _ _ la lb]
    rw [inIdxOf_spec A sh vals C n _ _ _ _ la lb lc va vc (by
      rw [hb]
      have hlt : k / prodNat C % prodNat sh < vals.length := by rw [hlen]; exact Nat.mod_lt _ hM
      rw [List.getD_eq_getElem _ _ hlt]
      exact hvals _ (List.getElem_mem _))]
    simp only [hb, pure, Except.pure]
    congr 1
    rw [ravelIdx_append A (n :: C) _ _ la (by simp [lc]), ma_ravelIdx_cons n C _ _ lc, ma_prodNat_cons,
      ravel_unravel_mod A _ hP, ravel_unravel_mod C _ hR,
      Nat.mod_eq_of_lt ((Nat.div_lt_iff_lt_mul hMR).mpr hk')]
    unfold posFn nvf
    rw [Nat.add_mul, Nat.mul_assoc, Nat.add_assoc]

/-! ### counting -/

theorem countP_range_mul (p : Nat → Bool) (a b : Nat) :
    (List.range (a * b)).countP p
      = ((List.range a).map fun i => (List.range b).countP fun j => p (i * b + j)).sum := by
  induction a with
  | zero => simp
  | succ a ih =>
    rw [Nat.succ_mul, List.range_add, List.countP_append, ih, List.range_succ, List.map_append, List.sum_append,
      List.countP_map]
    simp [Function.comp_def]

theorem sum_map_ite_countP (l : List Nat) (p : Nat → Bool) :
    (l.map fun i => if p i = true then 1 else 0).sum = l.countP p := by
  induction l with
  | nil => rfl
  | cons x l ih =>
    rw [List.map_cons, List.sum_cons, List.countP_cons, ih]
    omega

theorem mixed_inj (R X Y j j' : Nat) (hj : j < R) (hj' : j' < R) (h : X * R + j = Y * R + j') :
    X = Y ∧ j = j' := by
  have hR : 0 < R := by omega
  have hX : (X * R + j) / R = X := by
    rw [Nat.add_comm, Nat.add_mul_div_right _ _ hR, Nat.div_eq_of_lt hj, Nat.zero_add]
  have hY : (Y * R + j') / R = Y := by
    rw [Nat.add_comm, Nat.add_mul_div_right _ _ hR, Nat.div_eq_of_lt hj', Nat.zero_add]
  have e : X = Y := by rw [← hX, ← hY, h]
  subst e
  exact ⟨rfl, by omega⟩

theorem mixed_lt (X Y R j : Nat) (hX : X < Y) (hj : j < R) : X * R + j < Y * R := by
  calc X * R + j < X * R + R := by omega
    _ = (X + 1) * R := by rw [Nat.add_mul, Nat.one_mul]
    _ ≤ Y * R := Nat.mul_le_mul_right R hX

theorem decomp3 (i b j M R : Nat) (hb : b < M) (hj : j < R) :
    (i * (M * R) + (b * R + j)) / (M * R) = i ∧ (i * (M * R) + (b * R + j)) / R % M = b ∧
      (i * (M * R) + (b * R + j)) % R = j := by
  have hR : 0 < R := by omega
  have hM : 0 < M := by omega
  have hx : b * R + j < M * R := mixed_lt b M R j hb hj
  have e : i * (M * R) + (b * R + j) = (i * M + b) * R + j := by
    rw [Nat.add_mul, Nat.mul_assoc, Nat.add_assoc]
  refine ⟨?_, ?_, ?_⟩
  · rw [Nat.add_comm, Nat.add_mul_div_right _ _ (Nat.mul_pos hM hR), Nat.div_eq_of_lt hx, Nat.zero_add]
  · rw [e, Nat.add_comm, Nat.add_mul_div_right _ _ hR, Nat.div_eq_of_lt hj, Nat.zero_add, Nat.add_comm,
      Nat.add_mul_mod_self_right, Nat.mod_eq_of_lt hb]
  · rw [e, Nat.add_comm, Nat.add_mul_mod_self_right, Nat.mod_eq_of_lt hj]

theorem count_posFn (n P M R : Nat) (f : Nat → Nat) (hf : ∀ b, b < M → f b < n) (qi v qj : Nat)
    (hqi : qi < P) (hv : v < n) (hqj : qj < R) :
    ((List.range (P * (M * R))).map fun k => (k / (M * R) * n + f (k / R % M)) * R + k % R).count
        ((qi * n + v) * R + qj)
      = (List.range M).countP fun b => f b == v := by
  rw [List.count_eq_countP, List.countP_map, countP_range_mul]
  have inner : ∀ i, i < P → ∀ b, b < M →
      ((List.range R).countP fun j =>
        ((fun x => x == (qi * n + v) * R + qj) ∘ fun k => (k / (M * R) * n + f (k / R % M)) * R + k % R)
          (i * (M * R) + (b * R + j)))
        = if (decide (i = qi) && (f b == v)) = true then 1 else 0 := by
    intro i _ b hb
    have hcongr : ((List.range R).countP fun j =>
        ((fun x => x == (qi * n + v) * R + qj) ∘ fun k => (k / (M * R) * n + f (k / R % M)) * R + k % R)
          (i * (M * R) + (b * R + j)))
        = (List.range R).countP fun j => (decide (i = qi) && (f b == v)) && (j == qj) := by
      apply List.countP_congr
      intro j hj
      have hj' := List.mem_range.mp hj
      obtain ⟨d1, d2, d3⟩ := decomp3 i b j M R hb hj'
      simp only [Function.comp_apply, d1, d2, d3, beq_iff_eq, Bool.and_eq_true, decide_eq_true_eq]
      constructor
      · intro h
        obtain ⟨h1, h2⟩ := mixed_inj R _ _ _ _ hj' hqj h
        obtain ⟨h3, h4⟩ := mixed_inj n _ _ _ _ (hf b hb) hv h1
        exact ⟨⟨h3, h4⟩, h2⟩
      · rintro ⟨⟨h3, h4⟩, h2⟩
        rw [h3, h4, h2]
    rw [hcongr]
    by_cases hc : (decide (i = qi) && (f b == v)) = true
    · rw [if_pos hc]
      simp only [hc, Bool.true_and]
      rw [← List.count_eq_countP]
      exact List.count_eq_one_of_mem List.nodup_range (List.mem_range.mpr hqj)
    · rw [if_neg hc]
      have : (decide (i = qi) && (f b == v)) = false := by simpa using hc
      simp [this]
  have outer : ∀ i ∈ List.range P,
      ((List.range (M * R)).countP fun j' =>
        ((fun x => x == (qi * n + v) * R + qj) ∘ fun k => (k / (M * R) * n + f (k / R % M)) * R + k % R)
          (i * (M * R) + j'))
        = if qi = i then (List.range M).countP (fun b => f b == v) else 0 := by
    intro i hi
    have hi' := List.mem_range.mp hi
    rw [countP_range_mul]
    rw [List.map_congr_left (fun b hb => inner i hi' b (List.mem_range.mp hb))]
    by_cases hc : qi = i
    · subst hc
      rw [if_pos rfl]
      simp only [decide_true, Bool.true_and]
      exact sum_map_ite_countP _ _
    · rw [if_neg hc]
      have : ∀ b, (decide (i = qi) && (f b == v)) = false := by
        intro b
        have : ¬ i = qi := fun e => hc e.symm
        simp [this]
      simp [this]
  rw [List.map_congr_left outer, sum_indicator P qi (fun _ => (List.range M).countP fun b => f b == v), if_pos hqi]

/-! ### `toSels` on the fragment: full slices, at most one ellipsis, one integer array -/

private theorem pyRange_up (fuel s len : Nat) (h1 : s ≤ len) (h2 : len - s < fuel) :
    pyRange (s : Int) (len : Int) 1 fuel = List.range' s (len - s) := by
  induction fuel generalizing s with
  | zero => omega
  | succ fuel ih =>
    rw [pyRange]
    rw [if_pos (by decide)]
    by_cases hs : s < len
    · rw [if_pos (by omega)]
      have e1 : len - s = (len - (s + 1)) + 1 := by omega
      have e2 : (s : Int) + 1 = ((s + 1 : Nat) : Int) := by omega
      rw [e1, List.range'_succ, e2, ih (s + 1) (by omega) (by omega)]
      simp
    · have e1 : len - s = 0 := by omega
      rw [if_neg (by omega), e1]
      rfl

private theorem sliceIndices_full (len : Nat) : sliceIndices none none none len = .ok (List.range len) := by
  have h := pyRange_up (len + 1) 0 len (by omega) (by omega)
  rw [List.range_eq_range']
  rw [← (by simpa using h : pyRange 0 (len : Int) 1 (len + 1) = List.range' 0 len)]
  rfl

/-- the entries of the fragment -/
def fragEntry (e : IdxEntry) : Prop := e = .slice none none none ∨ e = .ellipsis ∨ ∃ sh v, e = .iarr sh v

/-- a full slice or the ellipsis -/
def plainFull (e : IdxEntry) : Prop := e = .slice none none none ∨ e = .ellipsis

/-- what `toSels.go` produces on the fragment -/
def expandEntries (shape : List Nat) (fill : Nat) : List IdxEntry → Nat → List Sel
  | [], _ => []
  | .ellipsis :: r, dim =>
    (List.range fill).map (fun k => fullSel (shape.getD (dim + k) 0)) ++ expandEntries shape fill r (dim + fill)
  | .iarr sh v :: r, dim => .adv sh v :: expandEntries shape fill r (dim + 1)
  | _ :: r, dim => fullSel (shape.getD dim 0) :: expandEntries shape fill r (dim + 1)

theorem expand_nil (shape : List Nat) (fill dim : Nat) : expandEntries shape fill [] dim = [] := rfl
theorem expand_slice (shape : List Nat) (fill dim : Nat) (x y z : Option Int) (r : List IdxEntry) :
    expandEntries shape fill (.slice x y z :: r) dim
      = fullSel (shape.getD dim 0) :: expandEntries shape fill r (dim + 1) := rfl
theorem expand_ellipsis (shape : List Nat) (fill dim : Nat) (r : List IdxEntry) :
    expandEntries shape fill (.ellipsis :: r) dim
      = (List.range fill).map (fun k => fullSel (shape.getD (dim + k) 0))
        ++ expandEntries shape fill r (dim + fill) := rfl
theorem expand_iarr (shape : List Nat) (fill dim : Nat) (sh : List Nat) (v : List Int) (r : List IdxEntry) :
    expandEntries shape fill (.iarr sh v :: r) dim = .adv sh v :: expandEntries shape fill r (dim + 1) := rfl

theorem go_spec (shape : List Nat) (fill : Nat) (es : List IdxEntry) (dim : Nat) (acc : List Sel)
    (h : ∀ e ∈ es, fragEntry e) :
    toSels.go shape fill es dim acc = .ok (acc.reverse ++ expandEntries shape fill es dim) := by
  induction es generalizing dim acc with
  | nil => simp [toSels.go, expand_nil]
  | cons e es ih =>
    have ih' := fun dim acc => ih dim acc (fun e he => h e (List.mem_cons_of_mem _ he))
    rcases h e List.mem_cons_self with rfl | rfl | ⟨sh, v, rfl⟩
    · rw [toSels.go, sliceIndices_full]
      simp only
      rw [ih', expand_slice]
      simp [fullSel]
    · rw [toSels.go, ih', expand_ellipsis]
      simp [fullSel]
    · rw [toSels.go, ih', expand_iarr]
      simp

/-- number of input dimensions a list of plain entries spans -/
def widthOf (fill : Nat) (es : List IdxEntry) : Nat :=
  (es.map fun e => if e = .ellipsis then fill else 1).sum

theorem widthOf_slice (fill : Nat) (x y z : Option Int) (es : List IdxEntry) :
    widthOf fill (.slice x y z :: es) = 1 + widthOf fill es := by simp [widthOf]
theorem widthOf_ellipsis (fill : Nat) (es : List IdxEntry) :
    widthOf fill (.ellipsis :: es) = fill + widthOf fill es := by simp [widthOf]

theorem expand_plain (shape : List Nat) (fill : Nat) (es : List IdxEntry) (dim : Nat)
    (h : ∀ e ∈ es, plainFull e) :
    expandEntries shape fill es dim
      = (List.range (widthOf fill es)).map (fun k => fullSel (shape.getD (dim + k) 0)) := by
  induction es generalizing dim with
  | nil => simp [expand_nil, widthOf]
  | cons e es ih =>
    have ih' := fun dim => ih dim (fun e he => h e (List.mem_cons_of_mem _ he))
    rcases h e List.mem_cons_self with rfl | rfl
    · rw [expand_slice, ih', widthOf_slice, List.range_add]
      simp [Function.comp_def, Nat.add_assoc]
    · rw [expand_ellipsis, ih', widthOf_ellipsis, List.range_add]
      simp [Function.comp_def, Nat.add_assoc]

theorem expand_append (shape : List Nat) (fill : Nat) (es1 es2 : List IdxEntry) (dim : Nat)
    (h : ∀ e ∈ es1, plainFull e) :
    expandEntries shape fill (es1 ++ es2) dim
      = expandEntries shape fill es1 dim ++ expandEntries shape fill es2 (dim + widthOf fill es1) := by
  induction es1 generalizing dim with
  | nil => simp [expand_nil, widthOf]
  | cons e es ih =>
    have ih' := fun dim => ih dim (fun e he => h e (List.mem_cons_of_mem _ he))
    rcases h e List.mem_cons_self with rfl | rfl
    · rw [List.cons_append, expand_slice, expand_slice, ih', widthOf_slice]
      simp [Nat.add_assoc]
    · rw [List.cons_append, expand_ellipsis, expand_ellipsis, ih', widthOf_ellipsis]
      simp [Nat.add_assoc]

theorem widthOf_append (fill : Nat) (a b : List IdxEntry) :
    widthOf fill (a ++ b) = widthOf fill a + widthOf fill b := by simp [widthOf]

theorem consumed_sum (es : List IdxEntry) (h : ∀ e ∈ es, plainFull e) :
    (es.map consumed).sum + es.count .ellipsis = es.length := by
  induction es with
  | nil => rfl
  | cons e es ih =>
    have := ih (fun e he => h e (List.mem_cons_of_mem _ he))
    rcases h e List.mem_cons_self with rfl | rfl
    · simp [consumed]; omega
    · simp [consumed]; omega

theorem widthOf_eq (fill : Nat) (es : List IdxEntry) (h : ∀ e ∈ es, plainFull e) :
    widthOf fill es = (es.map consumed).sum + fill * es.count .ellipsis := by
  induction es with
  | nil => simp [widthOf]
  | cons e es ih =>
    have := ih (fun e he => h e (List.mem_cons_of_mem _ he))
    rcases h e List.mem_cons_self with rfl | rfl
    · rw [widthOf_slice, this]; simp [consumed]; omega
    · rw [widthOf_ellipsis, this]; simp [consumed, Nat.mul_add]; omega

theorem map_getD_range_slice (shape : List Nat) (d w : Nat) (h : d + w ≤ shape.length) (f : Nat → Sel) :
    (List.range w).map (fun k => f (shape.getD (d + k) 0)) = ((shape.drop d).take w).map f := by
  apply List.ext_getElem
  · simp; omega
  · intro i h1 h2
    have hi : i < w := by simpa using h1
    simp only [List.getElem_map, List.getElem_range, List.getElem_take, List.getElem_drop]
    rw [List.getD_eq_getElem _ _ (by omega)]

theorem go_frag (shape : List Nat) (fill : Nat) (pre post' : List IdxEntry) (sh : List Nat) (vals : List Int)
    (hpre : ∀ e ∈ pre, plainFull e) (hpost : ∀ e ∈ post', plainFull e)
    (hw : widthOf fill pre + 1 + widthOf fill post' = shape.length) :
    toSels.go shape fill (pre ++ .iarr sh vals :: post') 0 []
      = .ok (selsOf (shape.take (widthOf fill pre)) sh vals (shape.drop (widthOf fill pre + 1))) := by
  rw [go_spec _ _ _ _ _ (by
    intro e he
    rcases List.mem_append.mp he with h | h
    · rcases hpre e h with rfl | rfl
      · exact Or.inl rfl
      · exact Or.inr (Or.inl rfl)
    · rcases List.mem_cons.mp h with rfl | h
      · exact Or.inr (Or.inr ⟨_, _, rfl⟩)
      · rcases hpost e h with rfl | rfl
        · exact Or.inl rfl
        · exact Or.inr (Or.inl rfl))]
  rw [expand_append _ _ _ _ _ hpre, expand_iarr, expand_plain _ _ _ _ hpre, expand_plain _ _ _ _ hpost,
    map_getD_range_slice shape 0 _ (by omega), map_getD_range_slice shape _ _ (by omega)]
  have e1 : (shape.drop (0 + widthOf fill pre + 1)).take (widthOf fill post') = shape.drop (widthOf fill pre + 1) := by
    rw [Nat.zero_add]
    apply List.take_of_length_le
    simp; omega
  rw [e1]
  simp [selsOf]

/-- the number of dimensions the ellipsis (written or implied) stands for -/
def fillOf (shape : List Nat) (pre post : List IdxEntry) : Nat :=
  shape.length - (pre.length + 1 + post.length - (pre ++ post).count .ellipsis)

theorem toSels_frag (shape : List Nat) (pre post : List IdxEntry) (sh : List Nat) (vals : List Int)
    (hpre : ∀ e ∈ pre, plainFull e) (hpost : ∀ e ∈ post, plainFull e)
    (hell : (pre ++ post).count .ellipsis ≤ 1)
    (hused : pre.length + 1 + post.length - (pre ++ post).count .ellipsis ≤ shape.length) :
    widthOf (fillOf shape pre post) pre < shape.length ∧
    toSels shape (pre ++ .iarr sh vals :: post)
      = .ok (selsOf (shape.take (widthOf (fillOf shape pre post) pre)) sh vals
          (shape.drop (widthOf (fillOf shape pre post) pre + 1))) := by
  have c1 := consumed_sum pre hpre
  have c2 := consumed_sum post hpost
  have w1 := widthOf_eq (fillOf shape pre post) pre hpre
  have w2 := widthOf_eq (fillOf shape pre post) post hpost
  rw [List.count_append] at hell hused
  have hn : ((pre ++ .iarr sh vals :: post).filter (· == .ellipsis)).length
      = pre.count .ellipsis + post.count .ellipsis := by
    rw [← List.countP_eq_length_filter, ← List.count_eq_countP, List.count_append, List.count_cons]
    simp
  have hu : ((pre ++ .iarr sh vals :: post).map consumed).sum
      = (pre.map consumed).sum + 1 + (post.map consumed).sum := by
    simp [consumed]; omega
  have hfill : shape.length - ((pre.map consumed).sum + 1 + (post.map consumed).sum) = fillOf shape pre post := by
    unfold fillOf
    rw [List.count_append]
    omega
  have hf : fillOf shape pre post + ((pre.map consumed).sum + 1 + (post.map consumed).sum) = shape.length := by
    rw [← hfill]; omega
  unfold toSels
  simp only [hn, hu, hfill]
  rw [if_neg (by omega), if_neg (by omega)]
  by_cases h0 : pre.count .ellipsis + post.count .ellipsis = 0
  · have hp0 : pre.count .ellipsis = 0 := by omega
    have hq0 : post.count .ellipsis = 0 := by omega
    rw [hp0, Nat.mul_zero, Nat.add_zero] at w1
    rw [hq0, Nat.mul_zero, Nat.add_zero] at w2
    have hw : widthOf (fillOf shape pre post) pre + 1 + widthOf (fillOf shape pre post) (post ++ [.ellipsis])
        = shape.length := by
      rw [widthOf_append, w1, w2]
      simp [widthOf]
      omega
    refine ⟨by omega, ?_⟩
    rw [if_pos (by simp [h0]), List.append_assoc, List.cons_append]
    exact go_frag shape _ pre (post ++ [.ellipsis]) sh vals hpre (by
      intro e he
      rcases List.mem_append.mp he with h | h
      · exact hpost e h
      · rw [List.mem_singleton.mp h]; exact Or.inr rfl) hw
  · have h1 : pre.count .ellipsis + post.count .ellipsis = 1 := by omega
    have hw : widthOf (fillOf shape pre post) pre + 1 + widthOf (fillOf shape pre post) post = shape.length := by
      rw [w1, w2]
      have : fillOf shape pre post * pre.count .ellipsis + fillOf shape pre post * post.count .ellipsis
          = fillOf shape pre post := by
        rw [← Nat.mul_add, h1, Nat.mul_one]
      omega
    refine ⟨by omega, ?_⟩
    rw [if_neg (by simp; omega)]
    exact go_frag shape _ pre post sh vals hpre hpost hw


/-! ## B. from a position specification to the law -/

private theorem fit_length (n : Nat) (x : V) : (fit n x).length = n := by
  simp [fit]

private theorem fit_of_length (n : Nat) (x : V) (h : x.length = n) : fit n x = x := by
  subst h
  simp [fit, List.takeD_eq_take]

private theorem headChunk_append (n : Nat) (a b : V) (h : a.length = n) : headChunk n (a ++ b) = a := by
  subst h
  unfold headChunk
  rw [List.take_left', fit_of_length _ _ rfl]
  rfl

private theorem headChunk_length (n : Nat) (x : V) : (headChunk n x).length = n := fit_length _ _

private theorem perLeaf_nil (f : LeafS → LeafS → V → V) (outs : List LeafS) (x : V) : perLeaf f [] outs x = [] := by
  simp [perLeaf, chunks]

private theorem perLeaf_cons (f : LeafS → LeafS → V → V) (li lo : LeafS) (ins outs : List LeafS) (x : V) :
    perLeaf f (li :: ins) (lo :: outs) x
      = fit lo.size (f li lo (headChunk li.size x)) ++ perLeaf f ins outs (x.drop li.size) := by
  simp [perLeaf, chunks]

private theorem perLeaf_length (f : LeafS → LeafS → V → V) (ins outs : List LeafS) (x : V)
    (h : outs.length = ins.length) : (perLeaf f ins outs x).length = (outs.map LeafS.size).sum := by
  induction ins generalizing outs x with
  | nil =>
    cases outs with
    | nil => simp [perLeaf_nil]
    | cons => simp at h
  | cons li ins ih =>
    cases outs with
    | nil => simp at h
    | cons lo outs =>
      rw [perLeaf_cons, List.length_append, fit_length, ih _ _ (by simpa using h)]
      simp

/-- what the position map of one leaf has to satisfy: it is computed without error, has one entry per element of
the result shape, stays inside the leaf, and the number of times a flat position `q` of the leaf is selected is
the multiplicity of `q`'s coordinate along axis `a` among the (normalised) index values -/
structure PosSpec (shape : List Nat) (idx : List IdxEntry) (a sizeMax : Nat) (vals : List Int)
    (osh pos : List Nat) : Prop where
  ok : indexPositions shape idx = .ok (osh, pos)
  len : pos.length = prodNat osh
  lt : ∀ q ∈ pos, q < prodNat shape
  count : ∀ q, q < prodNat shape →
    pos.count q = (mult sizeMax vals).getD ((unravel shape q).getD a 0) 0

/-- the values of the diagonal operator the rule builds -/
def covVals (sizeMax : Nat) (vals : List Int) : Tensor Rat :=
  ⟨[sizeMax], (ruleCoverage sizeMax vals).map (fun (c : Nat) => (c : Rat))⟩

/-- `axis` is Python-style axis number `a` of an array of rank `n` -/
def AxisIs (n : Nat) (axis : Int) (a : Nat) : Prop :=
  a < n ∧ ((0 ≤ axis ∧ axis = a) ∨ (axis < 0 ∧ (n : Int) + axis = a))

theorem mult_length (n : Nat) (l : List Int) : (mult n l).length = n := by simp [mult]

theorem unravel_getD_lt (shape : List Nat) (q a : Nat) (hq : q < prodNat shape) (ha : a < shape.length) :
    (unravel shape q).getD a 0 < shape.getD a 0 := by
  exact ((Diagonal.forall2_lt_iff _ _).mp (ma_unravel_valid shape q hq).1).2 a ha

/-- one leaf: scatter-add after gather is the diagonal of the coverage counts -/
theorem leaf_law {shape : List Nat} {idx : List IdxEntry} {a sizeMax : Nat} {vals : List Int} {osh pos : List Nat}
    (S : PosSpec shape idx a sizeMax vals osh pos) (axis : Int)
    (hax : AxisIs shape.length axis a) (hsz : shape.getD a 0 = sizeMax)
    (hvals : ∀ i ∈ vals, -(sizeMax : Int) ≤ i ∧ i < sizeMax)
    (li li' lo : LeafS) (hli : li.shape = shape) (hlo : lo.shape = osh)
    (c : V) (hc : c.length = prodNat shape) :
    scatterLeaf idx lo li (fit lo.size (gatherLeaf idx li lo c))
      = diagLeaf true (covVals sizeMax vals) [axis] li li' c := by
  obtain ⟨ha, haxis⟩ := hax
  have hN : li.size = prodNat shape := by rw [LeafS.size, hli]
  have hL : lo.size = pos.length := by rw [LeafS.size, hlo, S.len]
  unfold scatterLeaf gatherLeaf diagLeaf
  rw [hli, S.ok]
  simp only
  rw [fit_of_length _ _ (by rw [gather_length, hL]), hN,
    scatter_gather_mult (α := ℝ) (prodNat shape) pos c S.lt hc]
  have hnorm : Diagonal.normalizedAxes [axis] shape.length = [(a : Int)] := by
    simp only [Diagonal.normalizedAxes, List.map_cons, List.map_nil]
    rcases haxis with ⟨h0, h1⟩ | ⟨h0, h1⟩
    · rw [if_pos h0, h1]
    · rw [if_neg (by omega), h1]
  obtain ⟨y, hy, _, hyl, hyd⟩ := Diagonal.apply_inrange_signed true (castT (covVals sizeMax vals))
    (⟨shape, c⟩ : Tensor ℝ) [axis] (by simp [castT, covVals, Tensor.map]) (by simp [castT, covVals, Tensor.map])
    (by rw [hnorm]; simp)
    (by
      intro b hb
      rw [List.mem_singleton] at hb
      subst hb
      show -(shape.length : Int) ≤ b ∧ b < shape.length
      omega)
    (by
      intro k hk
      have hk0 : k = 0 := by simpa [castT, covVals, Tensor.map] using hk
      subst hk0
      show (castT (covVals sizeMax vals)).shape.getD 0 0 = shape.getD ((Diagonal.normalizedAxes [axis] shape.length).getD 0 0).toNat 0
      rw [hnorm]
      simpa [castT, covVals, Tensor.map] using hsz.symm)
  rw [hy]
  simp only [exData]
  have hyl' : y.data.length = prodNat shape := hyl
  rw [eq_range_map_getD (prodNat shape) y.data hyl']
  apply List.map_congr_left
  intro q hq
  have hq' : q < prodNat shape := List.mem_range.mp hq
  have h1 := hyd q hq'
  simp only [hnorm] at h1
  have hd : (default : ℝ) = 0 := rfl
  rw [hd] at h1
  have e : ravelIdx (castT (covVals sizeMax vals)).shape (Diagonal.valuesIndex [(a : Int)] (unravel shape q))
      = (unravel shape q).getD a 0 := by
    simp [Diagonal.valuesIndex, castT, covVals, Tensor.map, ravelIdx]
  rw [e] at h1
  rw [h1, S.count q hq']
  have hlt : (unravel shape q).getD a 0 < sizeMax := hsz ▸ unravel_getD_lt shape q a hq' ha
  congr 1
  generalize (unravel shape q).getD a 0 = i at hlt
  simp only [castT, covVals, Tensor.map]
  rw [ruleCoverage_eq_mult sizeMax vals hvals]
  rw [List.getD_eq_getElem _ _ (by simpa [mult_length] using hlt),
    List.getD_eq_getElem _ _ (by simpa [mult_length] using hlt)]
  simp

/-- the whole pytree, leaf by leaf -/
theorem perLeaf_law {shape : List Nat} {idx : List IdxEntry} {a sizeMax : Nat} {vals : List Int} {osh pos : List Nat}
    (S : PosSpec shape idx a sizeMax vals osh pos) (axis : Int)
    (hax : AxisIs shape.length axis a) (hsz : shape.getD a 0 = sizeMax)
    (hvals : ∀ i ∈ vals, -(sizeMax : Int) ≤ i ∧ i < sizeMax)
    (sl tl : List LeafS) (hsl : ∀ l ∈ sl, l.shape = shape) (htl : ∀ l ∈ tl, l.shape = osh)
    (hlen : tl.length = sl.length) (x : V) (hx : x.length = (sl.map LeafS.size).sum) :
    perLeaf (scatterLeaf idx) tl sl (perLeaf (gatherLeaf idx) sl tl x)
      = perLeaf (diagLeaf true (covVals sizeMax vals) [axis]) sl sl x := by
  induction sl generalizing tl x with
  | nil =>
    cases tl with
    | nil => simp [perLeaf_nil]
    | cons => simp at hlen
  | cons li sl ih =>
    cases tl with
    | nil => simp at hlen
    | cons lo tl =>
      have hli : li.shape = shape := hsl li (by simp)
      have hlo : lo.shape = osh := htl lo (by simp)
      simp only [List.map_cons, List.sum_cons] at hx
      rw [perLeaf_cons, perLeaf_cons, perLeaf_cons,
        headChunk_append _ _ _ (fit_length _ _), List.drop_left' (fit_length _ _),
        leaf_law S axis hax hsz hvals li li lo hli hlo _ (by rw [headChunk_length, LeafS.size, hli]),
        ih tl (fun l hl => hsl l (by simp [hl])) (fun l hl => htl l (by simp [hl])) (by simpa using hlen)
          _ (by rw [List.length_drop]; omega)]

/-- `Diagonal.apply true` succeeds on every leaf (the diagonal operator the rule builds is valid) -/
theorem diag_valid (shape : List Nat) (a sizeMax : Nat) (vals : List Int) (axis : Int)
    (hax : AxisIs shape.length axis a) (hsz : shape.getD a 0 = sizeMax) (c : V) :
    ∃ y, Diagonal.apply true (castT (covVals sizeMax vals)) (.seq [axis]) (⟨shape, c⟩ : Tensor ℝ) = .ok y ∧
      y.shape = shape := by
  obtain ⟨ha, haxis⟩ := hax
  have hnorm : Diagonal.normalizedAxes [axis] shape.length = [(a : Int)] := by
    simp only [Diagonal.normalizedAxes, List.map_cons, List.map_nil]
    rcases haxis with ⟨h0, h1⟩ | ⟨h0, h1⟩
    · rw [if_pos h0, h1]
    · rw [if_neg (by omega), h1]
  obtain ⟨y, hy, hys, _, _⟩ := Diagonal.apply_inrange_signed true (castT (covVals sizeMax vals))
    (⟨shape, c⟩ : Tensor ℝ) [axis] (by simp [castT, covVals, Tensor.map]) (by simp [castT, covVals, Tensor.map])
    (by rw [hnorm]; simp)
    (by
      intro b hb
      rw [List.mem_singleton] at hb
      subst hb
      show -(shape.length : Int) ≤ b ∧ b < shape.length
      omega)
    (by
      intro k hk
      have hk0 : k = 0 := by simpa [castT, covVals, Tensor.map] using hk
      subst hk0
      show (castT (covVals sizeMax vals)).shape.getD 0 0 = shape.getD ((Diagonal.normalizedAxes [axis] shape.length).getD 0 0).toNat 0
      rw [hnorm]
      simpa [castT, covVals, Tensor.map] using hsz.symm)
  exact ⟨y, hy, hys⟩

theorem transposeIndexDiag_vals (p : Params) (axis : Int) (sizeMax : Nat) (vals : List Int) :
    (transposeIndexDiag p axis sizeMax vals).vals = covVals sizeMax vals := rfl

/-- **the law, from a position specification** -/
theorem index_mult_of_posSpec (E : Env) (u uo : Nat) (p : Params) (axis : Int) {shape : List Nat}
    {a sizeMax : Nat} {vals : List Int} {osh pos : List Nat}
    (S : PosSpec shape p.idx a sizeMax vals osh pos)
    (hax : AxisIs shape.length axis a) (hsz : shape.getD a 0 = sizeMax)
    (hvals : ∀ i ∈ vals, -(sizeMax : Int) ≤ i ∧ i < sizeMax)
    (hin : ∀ l ∈ p.inS.leaves, l.shape = shape) (hout : ∀ l ∈ p.outS.leaves, l.shape = osh)
    (hlen : p.outS.leaves.length = p.inS.leaves.length) :
    ∀ x : V, x.length = p.inS.size →
      den E (.leaf 0 .diagonal (transposeIndexDiag p axis sizeMax vals)) x
        = den E (.wrap u .transpose (.leaf uo .index p)) (den E (.leaf uo .index p) x) := by
  intro x hx
  simp only [den, denT]
  show fit p.inS.size (perLeaf (diagLeaf true (covVals sizeMax vals) [axis]) p.inS.leaves p.inS.leaves
        (fit p.inS.size x))
    = fit p.inS.size (perLeaf (scatterLeaf p.idx) p.outS.leaves p.inS.leaves
        (fit p.outS.size (fit p.outS.size (perLeaf (gatherLeaf p.idx) p.inS.leaves p.outS.leaves
          (fit p.inS.size x)))))
  rw [fit_of_length _ x hx,
    fit_of_length p.outS.size _ (perLeaf_length _ _ _ _ hlen),
    fit_of_length p.outS.size _ (perLeaf_length _ _ _ _ hlen),
    perLeaf_law S axis hax hsz hvals _ _ hin hout hlen x hx]


/-! ## C. the fragment -/

theorem nvf_lt (n : Nat) (vals : List Int) (hvals : ∀ i ∈ vals, -(n : Int) ≤ i ∧ i < n) (b : Nat)
    (hb : b < vals.length) : nvf n vals b < n := by
  unfold nvf
  rw [List.getD_eq_getElem _ _ hb]
  have := normIdx_range n _ (hvals _ (List.getElem_mem hb))
  omega

theorem countP_nvf (n : Nat) (vals : List Int) (hvals : ∀ i ∈ vals, -(n : Int) ≤ i ∧ i < n) (v : Nat)
    (hv : v < n) :
    (List.range vals.length).countP (fun b => nvf n vals b == v) = (mult n vals).getD v 0 := by
  unfold mult
  rw [getD_range_map n _ v hv, ← List.countP_eq_length_filter]
  have e : vals = (List.range vals.length).map fun p => vals.getD p 0 := eq_range_map_getD _ _ rfl
  have e2 : List.countP (fun i => decide (normIdx n i = Int.ofNat v)) vals
      = List.countP (fun i => decide (normIdx n i = Int.ofNat v))
          ((List.range vals.length).map fun p => vals.getD p 0) := congrArg _ e
  rw [e2, List.countP_map]
  apply List.countP_congr
  intro b hb
  have hb' := List.mem_range.mp hb
  simp only [Function.comp_apply, nvf, beq_iff_eq, decide_eq_true_eq, Int.ofNat_eq_natCast]
  rw [List.getD_eq_getElem _ _ hb']
  have := normIdx_range n _ (hvals _ (List.getElem_mem hb'))
  omega

/-- the position specification for a leaf of shape `A ++ n :: C`, the array on axis `A.length` -/
theorem posSpec_frag (A C sh : List Nat) (n : Nat) (vals : List Int) (idx : List IdxEntry)
    (hsels : toSels (A ++ n :: C) idx = .ok (selsOf A sh vals C))
    (hadj : adjacentOf (flagsOf idx true) = true)
    (hvals : ∀ i ∈ vals, -(n : Int) ≤ i ∧ i < n) (hlen : vals.length = prodNat sh) :
    PosSpec (A ++ n :: C) idx A.length n vals (A ++ (sh ++ C))
      ((List.range (prodNat (A ++ (sh ++ C)))).map (posFn n C sh vals)) := by
  refine ⟨indexPositions_eval A C sh n vals idx hsels hadj hvals hlen, by simp, ?_, ?_⟩
  · intro q hq
    obtain ⟨k, hk, rfl⟩ := List.mem_map.mp hq
    have hk' : k < prodNat A * (prodNat sh * prodNat C) := by
      have := List.mem_range.mp hk
      rwa [prodNat_app, prodNat_app] at this
    have hMR : 0 < prodNat sh * prodNat C := Nat.pos_of_mul_pos_left (Nat.zero_lt_of_lt hk')
    have hM : 0 < prodNat sh := Nat.pos_of_mul_pos_right hMR
    have hR : 0 < prodNat C := Nat.pos_of_mul_pos_left hMR
    rw [prodNat_app, ma_prodNat_cons, ← Nat.mul_assoc]
    unfold posFn
    apply mixed_lt _ _ _ _ _ (Nat.mod_lt _ hR)
    apply mixed_lt _ _ _ _ ((Nat.div_lt_iff_lt_mul hMR).mpr hk')
    exact nvf_lt n vals hvals _ (by rw [hlen]; exact Nat.mod_lt _ hM)
  · intro q hq
    rw [prodNat_app, ma_prodNat_cons] at hq
    have hnR : 0 < n * prodNat C := Nat.pos_of_mul_pos_left (Nat.zero_lt_of_lt hq)
    have hn : 0 < n := Nat.pos_of_mul_pos_right hnR
    have hR : 0 < prodNat C := Nat.pos_of_mul_pos_left hnR
    have hcoord : (unravel (A ++ n :: C) q).getD A.length 0 = q / prodNat C % n := by
      rw [unravel_append, List.getD_append_right _ _ _ _ (by rw [ma_unravel_length]), ma_unravel_length,
        Nat.sub_self, ma_unravel_cons]
      rfl
    rw [hcoord]
    have hq3 : q = (q / (n * prodNat C) * n + q / prodNat C % n) * prodNat C + q % prodNat C := by
      have h1 := Nat.div_add_mod' q (prodNat C)
      have h2 := Nat.div_add_mod' (q / prodNat C) n
      rw [Nat.div_div_eq_div_mul, Nat.mul_comm (prodNat C) n] at h2
      rw [h2, h1]
    have hcount := count_posFn n (prodNat A) (prodNat sh) (prodNat C) (nvf n vals)
      (fun b hb => nvf_lt n vals hvals b (by omega)) (q / (n * prodNat C)) (q / prodNat C % n) (q % prodNat C)
      ((Nat.div_lt_iff_lt_mul hnR).mpr hq) (Nat.mod_lt _ hn) (Nat.mod_lt _ hR)
    rw [← hq3] at hcount
    rw [prodNat_app, prodNat_app]
    rw [show posFn n C sh vals = fun k => (k / (prodNat sh * prodNat C) * n
      + nvf n vals (k / prodNat C % prodNat sh)) * prodNat C + k % prodNat C from rfl]
    rw [hcount, ← hlen, countP_nvf n vals hvals _ (Nat.mod_lt _ hn)]

theorem plainEntry_of_plainFull {e : IdxEntry} (h : plainFull e) : plainEntry e := by
  rcases h with rfl | rfl
  · exact Or.inl ⟨_, _, _, rfl⟩
  · exact Or.inr rfl

/-- the axis the array sits on -/
def arrayAxis (shape : List Nat) (pre post : List IdxEntry) : Nat := widthOf (fillOf shape pre post) pre

/-- the shape of the indexing result -/
def resultShape (shape : List Nat) (pre post : List IdxEntry) (sh : List Nat) : List Nat :=
  shape.take (arrayAxis shape pre post) ++ (sh ++ shape.drop (arrayAxis shape pre post + 1))

/-- **the position specification on the fragment**: index tuple `pre ++ [array] ++ post`, `pre` and `post` made
of full slices and at most one ellipsis -/
theorem posSpec_of_frag (shape : List Nat) (pre post : List IdxEntry) (sh : List Nat) (vals : List Int)
    (hpre : ∀ e ∈ pre, plainFull e) (hpost : ∀ e ∈ post, plainFull e)
    (hell : (pre ++ post).count .ellipsis ≤ 1)
    (hused : pre.length + 1 + post.length - (pre ++ post).count .ellipsis ≤ shape.length)
    (hvals : ∀ i ∈ vals, -((shape.getD (arrayAxis shape pre post) 0 : Nat) : Int) ≤ i ∧
      i < (shape.getD (arrayAxis shape pre post) 0 : Nat))
    (hlen : vals.length = prodNat sh) :
    arrayAxis shape pre post < shape.length ∧
    ∃ pos, PosSpec shape (pre ++ .iarr sh vals :: post) (arrayAxis shape pre post)
      (shape.getD (arrayAxis shape pre post) 0) vals (resultShape shape pre post sh) pos := by
  obtain ⟨ha0, hsels⟩ := toSels_frag shape pre post sh vals hpre hpost hell hused
  have ha : arrayAxis shape pre post < shape.length := ha0
  have hsels : toSels shape (pre ++ .iarr sh vals :: post)
      = .ok (selsOf (shape.take (arrayAxis shape pre post)) sh vals
          (shape.drop (arrayAxis shape pre post + 1))) := hsels
  refine ⟨ha, ?_⟩
  have hshape : shape.take (arrayAxis shape pre post)
      ++ shape.getD (arrayAxis shape pre post) 0 :: shape.drop (arrayAxis shape pre post + 1) = shape := by
    rw [List.getD_eq_getElem _ _ ha, List.getElem_cons_drop, List.take_append_drop]
  have hadj : adjacentOf (flagsOf (pre ++ .iarr sh vals :: post) true) = true := by
    rw [flagsOf_single pre post sh vals (fun e he => plainEntry_of_plainFull (hpre e he))
      (fun e he => plainEntry_of_plainFull (hpost e he))]
    exact adjacentOf_single _ _
  have key := posSpec_frag (shape.take (arrayAxis shape pre post)) (shape.drop (arrayAxis shape pre post + 1)) sh
    (shape.getD (arrayAxis shape pre post) 0) vals (pre ++ .iarr sh vals :: post)
    (by rw [hshape]; exact hsels) hadj hvals hlen
  rw [hshape, List.length_take, Nat.min_eq_left (Nat.le_of_lt ha)] at key
  exact ⟨_, key⟩

/-- the Python axis number `TransposeIndexRule` reads off `indexed_axes`: counted from the left when no ellipsis
precedes the array, from the right otherwise -/
def pyAxis (pre post : List IdxEntry) : Int :=
  if IdxEntry.ellipsis ∈ pre then -((post.length : Int) + 1) else (pre.length : Int)

theorem axisIs_frag (shape : List Nat) (pre post : List IdxEntry)
    (hpre : ∀ e ∈ pre, plainFull e) (_hpost : ∀ e ∈ post, plainFull e)
    (hell : (pre ++ post).count .ellipsis ≤ 1)
    (hused : pre.length + 1 + post.length - (pre ++ post).count .ellipsis ≤ shape.length)
    (ha : arrayAxis shape pre post < shape.length) :
    AxisIs shape.length (pyAxis pre post) (arrayAxis shape pre post) := by
  refine ⟨ha, ?_⟩
  have c1 := consumed_sum pre hpre
  have w1 := widthOf_eq (fillOf shape pre post) pre hpre
  unfold arrayAxis at ha ⊢
  unfold pyAxis
  have hfill : fillOf shape pre post
      = shape.length - (pre.length + 1 + post.length - (pre.count .ellipsis + post.count .ellipsis)) := by
    unfold fillOf; rw [List.count_append]
  rw [List.count_append] at hell hused
  by_cases hin : IdxEntry.ellipsis ∈ pre
  · have hpos : 0 < pre.count .ellipsis := List.count_pos_iff.mpr hin
    have h1 : pre.count .ellipsis = 1 := by omega
    have h2 : post.count .ellipsis = 0 := by omega
    rw [if_pos hin]
    right
    rw [h1, Nat.mul_one] at w1
    rw [h1, h2] at hfill hused
    omega
  · have h1 : pre.count .ellipsis = 0 := List.count_eq_zero.mpr hin
    rw [if_neg hin]
    left
    rw [h1, Nat.mul_zero, Nat.add_zero] at w1
    omega

theorem pyGet?_axisIs {shape : List Nat} {axis : Int} {a sizeMax : Nat} (hax : AxisIs shape.length axis a)
    (h : pyGet? shape axis = some sizeMax) : shape.getD a 0 = sizeMax := by
  obtain ⟨ha, hcases⟩ := hax
  unfold pyGet? at h
  have hj : (if axis < 0 then axis + (shape.length : Int) else axis) = (a : Int) := by
    rcases hcases with ⟨h0, h1⟩ | ⟨h0, h1⟩
    · rw [if_neg (by omega)]; exact h1
    · rw [if_pos h0]; omega
  simp only [hj] at h
  rw [if_neg (by omega), Int.toNat_natCast] at h
  rw [List.getD_eq_getElem?_getD, h]
  rfl

/-- **The fragment reached (stage 4).**  The index tuple is `pre ++ [array] ++ post` where the array is an integer
array of any rank (shape `sh`, flat values `vals`) and `pre`, `post` consist of full slices `:` and at most one
ellipsis; `axis` is the Python axis number `indexed_axes` reports; every leaf of the input structure has shape
`shape`, whose rank is at least the number of non-ellipsis entries; `sizeMax = shape[axis]`; the index values are
in bounds (`-sizeMax ≤ v < sizeMax`) and there are `prod sh` of them; the output structure has one leaf per input
leaf, each of the shape of the indexing result. -/
def indexMultOK (p : Params) (axis : Int) (shape sh : List Nat) (vals : List Int) (sizeMax : Nat) : Prop :=
  ∃ pre post : List IdxEntry,
    p.idx = pre ++ .iarr sh vals :: post ∧
    (∀ e ∈ pre, plainFull e) ∧ (∀ e ∈ post, plainFull e) ∧
    (pre ++ post).count .ellipsis ≤ 1 ∧
    pre.length + 1 + post.length - (pre ++ post).count .ellipsis ≤ shape.length ∧
    axis = pyAxis pre post ∧
    pyGet? shape axis = some sizeMax ∧
    vals.length = prodNat sh ∧
    (∀ i ∈ vals, -(sizeMax : Int) ≤ i ∧ i < sizeMax) ∧
    (∀ l ∈ p.inS.leaves, l.shape = shape) ∧
    p.outS.leaves.length = p.inS.leaves.length ∧
    (∀ l ∈ p.outS.leaves, ∃ pos, indexPositions shape p.idx = .ok (l.shape, pos))

/-- **`TransposeIndexRule`, semantically**: on the fragment `indexMultOK`, the diagonal operator the rule builds
is valid on every leaf and denotes `indexᵀ ∘ index`. -/
theorem index_mult_law (E : Env) (u uo : Nat) (p : Params) (axis : Int) (shape sh : List Nat) (vals : List Int)
    (sizeMax : Nat) (h : indexMultOK p axis shape sh vals sizeMax) :
    (∀ l ∈ p.inS.leaves, ∀ c : V, ∃ y,
      Diagonal.apply true (castT (transposeIndexDiag p axis sizeMax vals).vals)
        (.seq ((transposeIndexDiag p axis sizeMax vals).ints.getD 0 [])) (⟨l.shape, c⟩ : Tensor ℝ) = .ok y ∧
      y.shape = l.shape) ∧
    ∀ x : V, x.length = p.inS.size →
      den E (.leaf 0 .diagonal (transposeIndexDiag p axis sizeMax vals)) x
        = den E (.wrap u .transpose (.leaf uo .index p)) (den E (.leaf uo .index p) x) := by
  obtain ⟨pre, post, hidx, hpre, hpost, hell, hused, haxis, hsize, hlen, hvals, hin, hol, hout⟩ := h
  have ha0 := (toSels_frag shape pre post sh vals hpre hpost hell hused).1
  have hax : AxisIs shape.length axis (arrayAxis shape pre post) := by
    rw [haxis]; exact axisIs_frag shape pre post hpre hpost hell hused ha0
  have hsz : shape.getD (arrayAxis shape pre post) 0 = sizeMax := pyGet?_axisIs hax hsize
  obtain ⟨_, pos, S⟩ := posSpec_of_frag shape pre post sh vals hpre hpost hell hused (by rw [hsz]; exact hvals) hlen
  rw [← hidx, hsz] at S
  constructor
  · intro l hl c
    rw [hin l hl]
    exact diag_valid shape _ sizeMax vals axis hax hsz c
  · refine index_mult_of_posSpec E u uo p axis S hax hsz hvals hin ?_ hol
    intro l hl
    obtain ⟨pos', hp'⟩ := hout l hl
    rw [S.ok] at hp'
    injection hp' with hp'
    injection hp' with h1 _
    exact h1.symm

/-! ### stages 1-3: the tuple `(array,)`, trailing axes implicit -/

/-- **Stage 3** (contains stages 1 and 2): index tuple `[array]` with an integer array of any rank, leaves of shape
`n :: rest`. -/
theorem index_mult_stage3 (E : Env) (u uo : Nat) (p : Params) (n : Nat) (rest sh : List Nat) (vals : List Int)
    (hidx : p.idx = [.iarr sh vals])
    (hlen : vals.length = prodNat sh) (hvals : ∀ i ∈ vals, -(n : Int) ≤ i ∧ i < n)
    (hin : ∀ l ∈ p.inS.leaves, l.shape = n :: rest)
    (hol : p.outS.leaves.length = p.inS.leaves.length)
    (hout : ∀ l ∈ p.outS.leaves, l.shape = sh ++ rest) :
    ∀ x : V, x.length = p.inS.size →
      den E (.leaf 0 .diagonal (transposeIndexDiag p 0 n vals)) x
        = den E (.wrap u .transpose (.leaf uo .index p)) (den E (.leaf uo .index p) x) := by
  have hpre : ∀ e ∈ ([] : List IdxEntry), plainFull e := by simp
  have hell : (([] : List IdxEntry) ++ []).count IdxEntry.ellipsis ≤ 1 := by simp
  have hused : ([] : List IdxEntry).length + 1 + ([] : List IdxEntry).length
      - (([] : List IdxEntry) ++ []).count IdxEntry.ellipsis ≤ (n :: rest).length := by simp
  have ha : arrayAxis (n :: rest) [] [] = 0 := by simp [arrayAxis, widthOf]
  obtain ⟨_, pos, S⟩ := posSpec_of_frag (n :: rest) [] [] sh vals hpre hpre hell hused
    (by rw [ha]; exact hvals) hlen
  have hrs : resultShape (n :: rest) [] [] sh = sh ++ rest := by simp [resultShape, ha]
  rw [ha, hrs, List.nil_append, ← hidx] at S
  exact index_mult_of_posSpec E u uo p 0 S ⟨by simp, Or.inl ⟨by omega, rfl⟩⟩ rfl hvals hin hout hol

/-- **Stage 2**: index tuple `[array]`, a rank-one array of `m` values, leaves of shape `n :: rest`. -/
theorem index_mult_stage2 (E : Env) (u uo : Nat) (p : Params) (m n : Nat) (rest : List Nat) (vals : List Int)
    (hidx : p.idx = [.iarr [m] vals])
    (hlen : vals.length = m) (hvals : ∀ i ∈ vals, -(n : Int) ≤ i ∧ i < n)
    (hin : ∀ l ∈ p.inS.leaves, l.shape = n :: rest)
    (hol : p.outS.leaves.length = p.inS.leaves.length)
    (hout : ∀ l ∈ p.outS.leaves, l.shape = m :: rest) :
    ∀ x : V, x.length = p.inS.size →
      den E (.leaf 0 .diagonal (transposeIndexDiag p 0 n vals)) x
        = den E (.wrap u .transpose (.leaf uo .index p)) (den E (.leaf uo .index p) x) :=
  index_mult_stage3 E u uo p n rest [m] vals hidx (by simpa [prodNat] using hlen) hvals hin hol hout

/-- **Stage 1**: index tuple `[array]`, a rank-one array of `m` values, leaves of rank one. -/
theorem index_mult_stage1 (E : Env) (u uo : Nat) (p : Params) (m n : Nat) (vals : List Int)
    (hidx : p.idx = [.iarr [m] vals])
    (hlen : vals.length = m) (hvals : ∀ i ∈ vals, -(n : Int) ≤ i ∧ i < n)
    (hin : ∀ l ∈ p.inS.leaves, l.shape = [n])
    (hol : p.outS.leaves.length = p.inS.leaves.length)
    (hout : ∀ l ∈ p.outS.leaves, l.shape = [m]) :
    ∀ x : V, x.length = p.inS.size →
      den E (.leaf 0 .diagonal (transposeIndexDiag p 0 n vals)) x
        = den E (.wrap u .transpose (.leaf uo .index p)) (den E (.leaf uo .index p) x) :=
  index_mult_stage2 E u uo p m n [] vals hidx hlen hvals hin hol hout

/-! ### from the hypotheses of `RuleLaws.index_mult` to the fragment -/

theorem two_le_length_of_mem {l : List Nat} (_hn : l.Nodup) {x y : Nat} (hx : x ∈ l) (hy : y ∈ l)
    (hxy : x ≠ y) : 2 ≤ l.length := by
  have hsub : [x, y] ⊆ l := by
    intro z hz
    simp only [List.mem_cons, List.not_mem_nil, or_false] at hz
    rcases hz with rfl | rfl <;> assumption
  have := (List.subperm_of_subset (by simp [hxy] : [x, y].Nodup) hsub).length_le
  simpa using this

theorem one_le_length_of_mem {l : List Nat} {x : Nat} (hx : x ∈ l) : 1 ≤ l.length :=
  List.length_pos_of_mem hx

theorem ne_of_lt_idxOf (l : List IdxEntry) (x : IdxEntry) (a : Nat) (ha : a < l.idxOf x) (hal : a < l.length) :
    l[a] ≠ x := by
  have h : a < l.findIdx (· == x) := ha
  have := List.not_of_lt_findIdx h
  simpa using this

/-- the index tuple of the fragment, recovered from what `TransposeIndexRule` checks: at most one indexed axis,
`axis` the first of them, and an integer array at `indices[axis]` -/
theorem frag_decomp (idx : List IdxEntry) (axis : Int) (sh : List Nat) (vals : List Int)
    (hfrag : ∀ e ∈ idx, fragEntry e)
    (hlen1 : (indexedAxes idx).length ≤ 1) (hhead : (indexedAxes idx).head? = some axis)
    (hget : pyGet? idx axis = some (.iarr sh vals)) :
    ∃ pre post, idx = pre ++ .iarr sh vals :: post ∧ (∀ e ∈ pre, plainFull e) ∧ (∀ e ∈ post, plainFull e) ∧
      axis = pyAxis pre post := by
  -- the position of the array
  obtain ⟨t, ht, hidt, haxt⟩ : ∃ t, ∃ _ : t < idx.length, idx[t] = .iarr sh vals ∧
      ((0 ≤ axis ∧ axis = t) ∨ (axis < 0 ∧ axis + idx.length = t)) := by
    unfold pyGet? at hget
    simp only at hget
    by_cases h0 : axis < 0
    · simp only [if_pos h0] at hget
      by_cases hj : axis + (idx.length : Int) < 0
      · rw [if_pos hj] at hget
        exact absurd hget (by simp)
      · rw [if_neg hj] at hget
        obtain ⟨hlt, heq⟩ := List.getElem?_eq_some_iff.mp hget
        exact ⟨_, hlt, heq, Or.inr ⟨h0, by omega⟩⟩
    · simp only [if_neg h0] at hget
      obtain ⟨hlt, heq⟩ := List.getElem?_eq_some_iff.mp hget
      exact ⟨_, hlt, heq, Or.inl ⟨by omega, by omega⟩⟩
  -- the two filters of `indexedAxes`
  have hIA : indexedAxes idx
      = ((List.range (min (idx.idxOf .ellipsis) idx.length)).filter
          fun a => !((idx.getD a .ellipsis).isFullSlice)).map (fun (a : Nat) => Int.ofNat a)
        ++ ((List.range idx.length).filter
          fun a => idx.idxOf .ellipsis < a && !((idx.getD a .ellipsis).isFullSlice)).map
            (fun (a : Nat) => Int.ofNat a - Int.ofNat idx.length) := rfl
  generalize hbefore : (List.range (min (idx.idxOf .ellipsis) idx.length)).filter
      (fun a => !((idx.getD a .ellipsis).isFullSlice)) = before at hIA
  generalize hafter : (List.range idx.length).filter
      (fun a => decide (idx.idxOf .ellipsis < a) && !((idx.getD a .ellipsis).isFullSlice)) = after at hIA
  have hbn : before.Nodup := by rw [← hbefore]; exact List.Nodup.filter _ List.nodup_range
  have han : after.Nodup := by rw [← hafter]; exact List.Nodup.filter _ List.nodup_range
  have hlen : before.length + after.length ≤ 1 := by
    rw [hIA] at hlen1; simpa using hlen1
  have hall : ∀ z ∈ indexedAxes idx, z = axis := by
    intro z hz
    generalize indexedAxes idx = L at hlen1 hhead hz
    cases L with
    | nil => simp at hhead
    | cons w L' =>
      cases L' with
      | nil =>
        simp only [List.head?_cons, Option.some.injEq] at hhead
        simp only [List.mem_singleton] at hz
        rw [hz, hhead]
      | cons _ _ => simp at hlen1
  -- array positions are members of one of the filters
  have hmem : ∀ a (ha : a < idx.length), (∃ s v, idx[a] = IdxEntry.iarr s v) →
      (a < idx.idxOf .ellipsis ∧ a ∈ before) ∨ (idx.idxOf .ellipsis < a ∧ a ∈ after) := by
    intro a ha ⟨s, v, hav⟩
    have hNF : (!((idx.getD a .ellipsis).isFullSlice)) = true := by
      rw [List.getD_eq_getElem _ _ ha, hav]; rfl
    have hne : a ≠ idx.idxOf .ellipsis := by
      intro e
      subst e
      have := List.getElem_idxOf ha
      rw [hav] at this
      exact absurd this (by simp)
    rcases Nat.lt_or_gt_of_ne hne with h | h
    · left
      refine ⟨h, ?_⟩
      rw [← hbefore, List.mem_filter, List.mem_range]
      exact ⟨by omega, hNF⟩
    · right
      refine ⟨h, ?_⟩
      rw [← hafter, List.mem_filter, List.mem_range]
      refine ⟨ha, ?_⟩
      simp only [Bool.and_eq_true, decide_eq_true_eq]
      exact ⟨h, hNF⟩
  have htm := hmem t ht ⟨sh, vals, hidt⟩
  -- no other array
  have huniq : ∀ a (ha : a < idx.length), (∃ s v, idx[a] = IdxEntry.iarr s v) → a = t := by
    intro a ha hav
    by_contra hne
    have ham := hmem a ha hav
    rcases htm with ⟨_, h1⟩ | ⟨_, h1⟩ <;> rcases ham with ⟨_, h2⟩ | ⟨_, h2⟩
    · have := two_le_length_of_mem hbn h2 h1 hne; omega
    · have := one_le_length_of_mem h1; have := one_le_length_of_mem h2; omega
    · have := one_le_length_of_mem h1; have := one_le_length_of_mem h2; omega
    · have := two_le_length_of_mem han h2 h1 hne; omega
  have hsplit : idx = idx.take t ++ .iarr sh vals :: idx.drop (t + 1) := by
    rw [← hidt, List.getElem_cons_drop, List.take_append_drop]
  refine ⟨idx.take t, idx.drop (t + 1), hsplit, ?_, ?_, ?_⟩
  · intro e he
    obtain ⟨a, ha, rfl⟩ := List.getElem_of_mem he
    rw [List.length_take] at ha
    rw [List.getElem_take]
    rcases hfrag _ (List.getElem_mem (by omega : a < idx.length)) with h | h | ⟨s, v, h⟩
    · exact Or.inl h
    · exact Or.inr h
    · have := huniq a (by omega) ⟨s, v, h⟩
      omega
  · intro e he
    obtain ⟨a, ha, rfl⟩ := List.getElem_of_mem he
    rw [List.length_drop] at ha
    rw [List.getElem_drop]
    rcases hfrag _ (List.getElem_mem (by omega : t + 1 + a < idx.length)) with h | h | ⟨s, v, h⟩
    · exact Or.inl h
    · exact Or.inr h
    · have := huniq (t + 1 + a) (by omega) ⟨s, v, h⟩
      omega
  · unfold pyAxis
    rcases htm with ⟨hlt, h1⟩ | ⟨hlt, h1⟩
    · have hz : (Int.ofNat t) ∈ indexedAxes idx := by
        rw [hIA]
        exact List.mem_append_left _ (List.mem_map_of_mem h1)
      have hax := hall _ hz
      have hnot : IdxEntry.ellipsis ∉ idx.take t := by
        intro hmem'
        obtain ⟨a, ha, hae⟩ := List.getElem_of_mem hmem'
        rw [List.length_take] at ha
        rw [List.getElem_take] at hae
        exact ne_of_lt_idxOf idx .ellipsis a (by omega) (by omega) hae
      rw [if_neg hnot, List.length_take, Nat.min_eq_left (Nat.le_of_lt ht), ← hax]
      rfl
    · have hz : (Int.ofNat t - Int.ofNat idx.length) ∈ indexedAxes idx := by
        rw [hIA]
        exact List.mem_append_right _ (List.mem_map_of_mem (f := fun (a : Nat) => Int.ofNat a - Int.ofNat idx.length) h1)
      have hax := hall _ hz
      have he : idx.idxOf IdxEntry.ellipsis < idx.length := by omega
      have hin : IdxEntry.ellipsis ∈ idx.take t := by
        have := List.getElem_idxOf he
        rw [List.mem_iff_getElem]
        refine ⟨idx.idxOf .ellipsis, by rw [List.length_take]; omega, ?_⟩
        rw [List.getElem_take]
        exact this
      rw [if_pos hin, List.length_drop, ← hax]
      simp only [Int.ofNat_eq_natCast]
      omega

theorem all_eq_of_eraseDups (l : List LeafS) (s : List Nat)
    (h1 : ((l.map (·.shape)).eraseDups).length ≤ 1) (h2 : ((l.map (·.shape)).eraseDups).head? = some s) :
    ∀ x ∈ l, x.shape = s := by
  intro x hx
  have hm : x.shape ∈ (l.map (·.shape)).eraseDups :=
    List.mem_eraseDups.mpr (List.mem_map_of_mem hx)
  generalize (l.map (·.shape)).eraseDups = L at h1 h2 hm
  cases L with
  | nil => simp at h2
  | cons w L' =>
    cases L' with
    | nil =>
      simp only [List.head?_cons, Option.some.injEq] at h2
      simp only [List.mem_singleton] at hm
      rw [hm, h2]
    | cons _ _ => simp at h1

/-- **The hypotheses of `RuleLaws.index_mult` put the operator in the fragment**, provided the validity of the
index operator says: every entry of the tuple is a full slice, the ellipsis or an integer array; at most one
ellipsis; the rank of the leaves is at least the number of non-ellipsis entries; the array has `prod sh` in-bounds
values; the output structure is the structure of the indexing result. -/
theorem indexMultOK_of_rule (p : Params) (axis : Int) (shape sh : List Nat) (vals : List Int) (sizeMax : Nat)
    (hfrag : ∀ e ∈ p.idx, fragEntry e) (hell : p.idx.count .ellipsis ≤ 1)
    (hrank : p.idx.length - p.idx.count .ellipsis ≤ shape.length)
    (hlen1 : (indexedAxes p.idx).length ≤ 1) (hhead : (indexedAxes p.idx).head? = some axis)
    (hs1 : ((p.inS.leaves.map (·.shape)).eraseDups).length ≤ 1)
    (hs2 : ((p.inS.leaves.map (·.shape)).eraseDups).head? = some shape)
    (hget : pyGet? p.idx axis = some (.iarr sh vals)) (hsize : pyGet? shape axis = some sizeMax)
    (hvlen : vals.length = prodNat sh) (hvals : ∀ i ∈ vals, -(sizeMax : Int) ≤ i ∧ i < sizeMax)
    (hol : p.outS.leaves.length = p.inS.leaves.length)
    (hout : ∀ l ∈ p.outS.leaves, ∃ pos, indexPositions shape p.idx = .ok (l.shape, pos)) :
    indexMultOK p axis shape sh vals sizeMax := by
  obtain ⟨pre, post, hidx, hpre, hpost, hax⟩ := frag_decomp p.idx axis sh vals hfrag hlen1 hhead hget
  have hc : p.idx.count .ellipsis = (pre ++ post).count .ellipsis := by
    rw [hidx, List.count_append, List.count_append, List.count_cons]
    simp
  have hl : p.idx.length = pre.length + 1 + post.length := by
    rw [hidx]; simp; omega
  exact ⟨pre, post, hidx, hpre, hpost, hc ▸ hell, by rw [← hc, ← hl]; exact hrank, hax, hsize, hvlen, hvals,
    all_eq_of_eraseDups _ _ hs1 hs2, hol, hout⟩

/-- the law in the form of the field `RuleLaws.index_mult` -/
theorem index_mult_rule (E : Env) (u uo : Nat) (p : Params) (axis : Int) (shape sh : List Nat) (vals : List Int)
    (sizeMax : Nat)
    (hfrag : ∀ e ∈ p.idx, fragEntry e) (hell : p.idx.count .ellipsis ≤ 1)
    (hrank : p.idx.length - p.idx.count .ellipsis ≤ shape.length)
    (hvlen : vals.length = prodNat sh) (hvals : ∀ i ∈ vals, -(sizeMax : Int) ≤ i ∧ i < sizeMax)
    (hol : p.outS.leaves.length = p.inS.leaves.length)
    (hout : ∀ l ∈ p.outS.leaves, ∃ pos, indexPositions shape p.idx = .ok (l.shape, pos))
    (hlen1 : (indexedAxes p.idx).length ≤ 1) (hhead : (indexedAxes p.idx).head? = some axis)
    (hs1 : ((p.inS.leaves.map (·.shape)).eraseDups).length ≤ 1)
    (hs2 : ((p.inS.leaves.map (·.shape)).eraseDups).head? = some shape)
    (hget : pyGet? p.idx axis = some (.iarr sh vals)) (hsize : pyGet? shape axis = some sizeMax) :
    ∀ x : V, mem p.inS x →
      den E (.leaf 0 .diagonal (transposeIndexDiag p axis sizeMax vals)) x
        = den E (.wrap u .transpose (.leaf uo .index p)) (den E (.leaf uo .index p) x) :=
  (index_mult_law E u uo p axis shape sh vals sizeMax
    (indexMultOK_of_rule p axis shape sh vals sizeMax hfrag hell hrank hlen1 hhead hs1 hs2 hget hsize hvlen hvals
      hol hout)).2

/-! ### TEST: the fragment is inhabited (`x[..., [0, -1]]` on a leaf of shape `[2, 3]`) -/

example : indexMultOK
    { inS := ⟨[.leaf], [⟨[2, 3], .f64⟩]⟩, outS := ⟨[.leaf], [⟨[2, 2], .f64⟩]⟩,
      idx := [.ellipsis, .iarr [2] [0, -1]] } (-1) [2, 3] [2] [0, -1] 3 :=
  ⟨[.ellipsis], [], rfl, by simp [plainFull], by simp, by decide, by decide, by decide, by decide, by decide,
    by decide, by simp, rfl, by
      intro l hl
      simp only [List.mem_singleton] at hl
      subst hl
      exact ⟨[0, 2, 3, 5], by decide⟩⟩

#print axioms index_mult_rule

#print axioms index_mult_law
#print axioms index_mult_stage3
#print axioms index_mult_stage1

end ListSem
end Furax
