/-
C06, closed, in the list denotation: **the closed-form inverses invert**.

`inverseOp` (FuraxModel/Dual.lean) is the FORM of `op.I` for every operator class.  For every environment `E` of
the uninterpreted leaves we prove that the operator it builds denotes a two-sided inverse (`Inverts E o i`):

1. scalar operators with a non-zero value (`homothety_inverts`; a zero value is refused: `homothety_zero_refused`);
2. `DiagonalOperator` (`diagonal_inverts`: valid, well-formed values, all non-zero; and the Moore–Penrose identities
   `diagonal_moore_penrose` for arbitrary values).  Both rest on `den_diagonal` / `den_diagInv`: on vectors of
   the input size the operator is the entry-wise product with ONE vector `diagVec p`, its `DiagonalInverseOperator`
   the product with `(diagVec p).map pinvR`, `pinvR d = if d = 0 then 0 else 1 / d`.
   ADDED HYPOTHESIS (needed: `InverseExamples.wellFormed_needed`): the array of values is well formed;
3. rotations (`qurot_inverts`) and move-axis operators (`moveAxis_inverts`; the validity of the swapped leaf is
   DERIVED from the validity of the leaf: `moveAxisOK_swap`);
4. the three lazy wrappers (`wrap_inverts`, under `invertibleG E o`, `o` square and structurally well formed);
5. block diagonals, nested ones included (`blockDiag_inverts`, `blockDiag_inverts_build`, `blockDiag_inverts_of`);
6. the general statement `inverseOp_inverts` over `ClosedFormInvertible E`; `inverseOp_lazy`: every other
   operator goes to the lazy `InverseOperator` (`mkInverse`), which refuses non-square operands
   (`mkInverse_nonsquare`), wraps the reduced operand (`mkInverse_ok`) and inverts whenever the operand has an
   inverse (`mkInverse_inverts`, via `reduceTop_sound_closed` and assumption A4);
7. `InverseExamples`: a nested block diagonal satisfying `ClosedFormInvertible`, its `.I` computed by the model.
-/
import FuraxProofs.Sem.ListModel
import FuraxProofs.Lemmas.DiagonalSpec
namespace Furax
namespace ListSem
open Op

/-! ### 0. the statement: `i` denotes a two-sided inverse of `o` -/

/-- `i` has the transposed structures of `o` and `den E i` is a two-sided inverse of `den E o` on the vectors of
the declared sizes (both keep the declared lengths there) -/
structure Inverts (E : Env) (o i : Op) : Prop where
  inS_eq : Op.inS i = Op.outS o
  outS_eq : Op.outS i = Op.inS o
  len : ∀ x : V, x.length = inSize o → (den E o x).length = outSize o
  len' : ∀ y : V, y.length = outSize o → (den E i y).length = inSize o
  left : ∀ x : V, x.length = inSize o → den E i (den E o x) = x
  right : ∀ y : V, y.length = outSize o → den E o (den E i y) = y

theorem Inverts.inSize_eq {E : Env} {o i : Op} (h : Inverts E o i) : inSize i = outSize o := by
  unfold inSize outSize; rw [h.inS_eq]

theorem Inverts.outSize_eq {E : Env} {o i : Op} (h : Inverts E o i) : outSize i = inSize o := by
  unfold inSize outSize; rw [h.outS_eq]

/-- inverting is symmetric -/
theorem Inverts.symm {E : Env} {o i : Op} (h : Inverts E o i) : Inverts E i o where
  inS_eq := h.outS_eq.symm
  outS_eq := h.inS_eq.symm
  len := fun x hx => by rw [h.outSize_eq]; exact h.len' x (by rw [hx, h.inSize_eq])
  len' := fun y hy => by rw [h.inSize_eq]; exact h.len y (by rw [hy, h.outSize_eq])
  left := fun x hx => h.right x (by rw [hx, h.inSize_eq])
  right := fun y hy => h.left y (by rw [hy, h.outSize_eq])

/-- the four facts of the general statement -/
theorem Inverts.spec {E : Env} {o i : Op} (h : Inverts E o i) :
    Op.inS i = Op.outS o ∧ Op.outS i = Op.inS o ∧
    (∀ x : V, x.length = inSize o → den E i (den E o x) = x) ∧
    (∀ y : V, y.length = outSize o → den E o (den E i y) = y) :=
  ⟨h.inS_eq, h.outS_eq, h.left, h.right⟩

/-! ### 1. scalar operators -/

theorem den_homothety (E : Env) (u : Nat) (p : Params) (x : V) (hx : x.length = p.inS.size) :
    den E (.leaf u .homothety p) x = vsmul (p.vals.data.headD 1) x :=
  Laws.homothety_law E (.leaf u .homothety p) (by simp [isHomothety, isLeafCls]) x hx

/-- **`HomothetyOperator.inverse`**: `inverseOp` of a scalar operator of value `v ≠ 0` is the scalar operator of
value `1 / v` (rational arithmetic, cast to `ℝ` by the denotation), and it inverts -/
theorem homothety_inverts (E : Env) (u : Nat) (p : Params) (hv : p.vals.data.headD 1 ≠ 0) :
    inverseOp (.leaf u .homothety p) = .ok (mkHomothety (1 / p.vals.data.headD 1) p.inS) ∧
    Inverts E (.leaf u .homothety p) (mkHomothety (1 / p.vals.data.headD 1) p.inS) := by
  refine ⟨by simp only [inverseOp]; rw [if_neg hv], ?_⟩
  have hq : mkHomothety (1 / p.vals.data.headD 1) p.inS = .leaf 0 .homothety
      { inS := p.inS, outS := p.inS, vals := Tensor.scalar (1 / p.vals.data.headD 1) } := rfl
  rw [hq]
  generalize hqq : ({ inS := p.inS, outS := p.inS, vals := Tensor.scalar (1 / p.vals.data.headD 1) } : Params) = q
  have hqs : q.inS = p.inS := by rw [← hqq]
  have hval : q.vals.data.headD 1 = 1 / p.vals.data.headD 1 := by rw [← hqq]; rfl
  refine ⟨hqs, hqs, fun x _ => (lenAt_leaf E u .homothety p).1 x, fun y _ => ?_,
    fun x hx => ?_, fun y hy => ?_⟩
  · rw [(lenAt_leaf E 0 .homothety q).1 y]; show q.inS.size = p.inS.size; rw [hqs]
  · have hx' : x.length = p.inS.size := hx
    rw [den_homothety E u p x hx', den_homothety E 0 q _ (by rw [vsmul_length, hqs]; exact hx'), hval,
      vsmul_vsmul, one_div, inv_mul_cancel₀ hv, vsmul_one]
  · have hy' : y.length = p.inS.size := hy
    rw [den_homothety E 0 q y (by rw [hqs]; exact hy'), den_homothety E u p _ (by rw [vsmul_length]; exact hy'),
      hval, vsmul_vsmul, one_div, mul_inv_cancel₀ hv, vsmul_one]

/-- a zero scalar operator has no inverse: `inverseOp` refuses it -/
theorem homothety_zero_refused (u : Nat) (p : Params) (hv : p.vals.data.headD 1 = 0) :
    inverseOp (.leaf u .homothety p) = .error .unsupported := by
  simp only [inverseOp]; rw [if_pos hv]

/-! ### identity -/

theorem identity_inverts (E : Env) (u : Nat) (p : Params) :
    inverseOp (.leaf u .identity p) = .ok (.leaf u .identity p) ∧
    Inverts E (.leaf u .identity p) (.leaf u .identity p) := by
  refine ⟨by simp [inverseOp], rfl, rfl, fun x _ => (lenAt_leaf E u .identity p).1 x,
    fun y _ => (lenAt_leaf E u .identity p).1 y, fun x hx => ?_, fun y hy => ?_⟩
  · have hx' : x.length = p.inS.size := hx
    rw [den_identity E u p x hx', den_identity E u p x hx']
  · have hy' : y.length = p.inS.size := hy
    rw [den_identity E u p y hy', den_identity E u p y hy']

/-! ### 2. diagonal operators

`den E (.leaf u .diagonal p)` is, on vectors of the input size, the entry-wise product with ONE vector
`diagVec p` (the values broadcast to every leaf of the input structure, concatenated), and
`den E (.wrap w .diagInv (.leaf u .diagonal p))` the entry-wise product with `(diagVec p).map pinvR`:
`pinvR d = if d = 0 then 0 else 1 / d` — the pseudo-inverse never divides by zero. -/

section diagonal
open Furax.Diagonal Furax.Axes

/-- `where(d != 0, 1/d, 0)` on the reals: no division by zero is ever performed -/
noncomputable def pinvR (r : ℝ) : ℝ := if r = 0 then 0 else 1 / r

theorem pinvR_default : pinvR default = default := by
  show pinvR 0 = 0
  simp [pinvR]

theorem castT_pinvT (t : Tensor Rat) : castT (pinvT t) = (castT t).map pinvR := by
  simp only [castT, pinvT, Tensor.map, pinvValues, List.map_map, Tensor.mk.injEq, true_and]
  apply List.map_congr_left
  intro v _
  simp only [Function.comp, pinvR]
  by_cases hv : v = 0
  · subst hv; simp
  · have : (v != 0) = true := by simpa using hv
    have hv' : ((v : Rat) : ℝ) ≠ 0 := by exact_mod_cast hv
    simp only [this, if_true, if_neg hv']
    push_cast
    rfl

theorem getD_map_default (g : ℝ → ℝ) (hg : g default = default) (l : V) (i : Nat) :
    (l.map g).getD i default = g (l.getD i default) := by
  have := List.getD_map (f := g) (l := l) (n := i) (d := (default : ℝ))
  rw [hg] at this
  exact this

theorem transposeData_map (g : ℝ → ℝ) (hg : g default = default) (shape order : List Nat) (data : V) :
    transposeData shape order (data.map g) = (transposeData shape order data).map g := by
  unfold transposeData
  simp only [List.map_map]
  apply List.map_congr_left
  intro k _
  simp only [Function.comp, getD_map_default g hg]

theorem moveaxis_ok_inv {t d : Tensor ℝ} {src dst : List Int} (h : moveaxis t src dst = .ok d) :
    ∃ order, moveaxisOrder t.shape.length src dst = .ok order ∧
      d = ⟨transposeShape t.shape order, transposeData t.shape order t.data⟩ := by
  unfold moveaxis at h
  cases ho : moveaxisOrder t.shape.length src dst with
  | error e => simp [ho, bind, Except.bind] at h
  | ok order =>
    simp only [ho, bind, Except.bind, pure, Except.pure, Except.ok.injEq] at h
    exact ⟨order, rfl, h.symm⟩

theorem moveaxis_map (g : ℝ → ℝ) (hg : g default = default) (sh : List Nat) (data : V) (src dst : List Int)
    (d : Tensor ℝ) (h : moveaxis (⟨sh, data⟩ : Tensor ℝ) src dst = .ok d) :
    moveaxis (⟨sh, data.map g⟩ : Tensor ℝ) src dst = .ok (d.map g) := by
  obtain ⟨order, ho, rfl⟩ := moveaxis_ok_inv h
  unfold moveaxis
  simp only at ho ⊢
  simp only [ho, bind, Except.bind, pure, Except.pure, Tensor.map, transposeData_map g hg]

theorem reshapeDiagonal_map (g : ℝ → ℝ) (hg : g default = default) (W : Tensor ℝ) (ax : List Int) (n : Nat)
    (d : Tensor ℝ) (h : reshapeDiagonal W ax n = .ok d) : reshapeDiagonal (W.map g) ax n = .ok (d.map g) := by
  unfold reshapeDiagonal at h ⊢
  exact moveaxis_map g hg _ _ _ _ d h

theorem broadcastTo_map (g : ℝ → ℝ) (hg : g default = default) (d : Tensor ℝ) (S : List Nat) :
    ((d.map g).broadcastTo S).data = (d.broadcastTo S).data.map g := by
  unfold Tensor.broadcastTo
  simp only [Tensor.map, List.map_map]
  apply List.map_congr_left
  intro k _
  simp only [Function.comp, getD_map_default g hg]

/-- broadcasting a well-formed tensor to its own shape changes nothing -/
theorem broadcastTo_self (S : List Nat) (c : V) (hc : c.length = prodNat S) :
    ((⟨S, c⟩ : Tensor ℝ).broadcastTo S).data = c := by
  apply List.ext_getElem
  · simp [Tensor.broadcastTo, hc]
  · intro i h1 h2
    have hi : i < prodNat S := by simpa [Tensor.broadcastTo] using h1
    obtain ⟨v1, v2⟩ := ma_unravel_valid S i hi
    simp only [Tensor.broadcastTo, List.getElem_map, List.getElem_range]
    rw [bcastIndex_self S _ v1, v2]
    exact List.getD_eq_getElem _ _ h2

/-- both operands of a successful broadcast broadcast to the result -/
theorem broadcastShapes_Bc' (a b s : List Nat) (h : broadcastShapes a b = some s) : Bc a s ∧ Bc b s := by
  unfold broadcastShapes at h
  obtain ⟨hlen, hget⟩ := option_mapM_some _ _ _ h
  simp only [List.length_zip, List.length_append, List.length_replicate] at hlen
  have hn : s.length = max a.length b.length := by omega
  have key : ∀ j, j < s.length →
      let x := (List.replicate (max a.length b.length - a.length) 1 ++ a).getD j 0
      let y := (List.replicate (max a.length b.length - b.length) 1 ++ b).getD j 0
      (x = s.getD j 0 ∨ x = 1) ∧ (y = s.getD j 0 ∨ y = 1) := by
    intro j hj
    have hz : j < ((List.replicate (max a.length b.length - a.length) 1 ++ a).zip
        (List.replicate (max a.length b.length - b.length) 1 ++ b)).length := by
      simp only [List.length_zip, List.length_append, List.length_replicate]; omega
    have hg := hget j hz hj
    simp only [List.getElem_zip] at hg
    rw [List.getD_eq_getElem _ _ (by simp; omega), List.getD_eq_getElem _ _ (by simp; omega),
      List.getD_eq_getElem _ _ hj]
    intro x y
    simp only [x, y]
    split at hg
    · rename_i e
      have e' := eq_of_beq e
      simp only [Option.some.injEq] at hg
      omega
    · split at hg
      · rename_i e
        have e' := eq_of_beq e
        simp only [Option.some.injEq] at hg
        omega
      · split at hg
        · rename_i e
          have e' := eq_of_beq e
          simp only [Option.some.injEq] at hg
          omega
        · simp at hg
  refine ⟨⟨by omega, fun j hj => ?_⟩, ⟨by omega, fun j hj => ?_⟩⟩
  · have := key (j + (s.length - a.length)) (by omega)
    simp only [padded_getD] at this
    rw [if_neg (by omega)] at this
    rw [show j + (s.length - a.length) - (max a.length b.length - a.length) = j by omega] at this
    rcases this.1 with e | e
    · exact Or.inr e
    · exact Or.inl e
  · have := key (j + (s.length - b.length)) (by omega)
    simp only [padded_getD] at this
    rw [if_neg (by omega : ¬ j + (s.length - b.length) < max a.length b.length - b.length)] at this
    rw [show j + (s.length - b.length) - (max a.length b.length - b.length) = j by omega] at this
    rcases this.2 with e | e
    · exact Or.inr e
    · exact Or.inl e

/-- every entry of `transpose(a, order)` is an entry of `a` (well-formed tensor, `order` a permutation) -/
theorem transposeData_getD_mem (shape order : List Nat) (data : V)
    (hperm : order.Perm (List.range shape.length)) (hlen : data.length = prodNat shape) (m : Nat)
    (hm : m < prodNat (transposeShape shape order)) :
    ∃ j, j < data.length ∧ (transposeData shape order data).getD m default = data.getD j default := by
  obtain ⟨v1, v2⟩ := ma_unravel_valid _ m hm
  have hkey := ma_transposeData_getD shape order data _ v1
  rw [v2] at hkey
  refine ⟨_, ?_, hkey⟩
  rw [hlen]
  refine (ma_ravel_valid shape _ ?_).1
  have hol : order.length = shape.length := by simpa using hperm.length_eq
  rw [forall2_lt_iff] at v1 ⊢
  obtain ⟨w1, w2⟩ := v1
  rw [ma_transposeShape_length] at w1 w2
  refine ⟨by simp, fun j hj => ?_⟩
  rw [List.getD_eq_getElem _ _ (by simpa using hj)]
  simp only [List.getElem_map, List.getElem_range]
  have hmem : j ∈ order := hperm.mem_iff.mpr (List.mem_range.mpr hj)
  have hidx : order.idxOf j < order.length := List.idxOf_lt_length_iff.mpr hmem
  have := w2 (order.idxOf j) hidx
  rw [ma_transposeShape_getD _ _ _ hidx, List.getD_eq_getElem order 0 hidx, List.getElem_idxOf hidx] at this
  exact this

/-- the values of a diagonal operator broadcast to a leaf of shape `sh` (what `Diagonal.apply` multiplies by) -/
noncomputable def leafDiag (W : Tensor ℝ) (axes : List Int) (sh : List Nat) : V :=
  match normalizeAxes axes sh.length with
  | .ok ax =>
    match reshapeDiagonal W ax sh.length with
    | .ok d => (d.broadcastTo sh).data
    | .error _ => []
  | .error _ => []

/-- **one leaf of a `DiagonalOperator`**: if the strict product is accepted on a leaf of shape `sh`, then for every
array of values of the same shape obtained entry-wise (`W.map g`, `g 0 = 0`; `g = id` included) the product is
accepted on every well-formed leaf of that shape and multiplies entry-wise by `(leafDiag W axes sh).map g`;
when `W` is well formed every entry of `leafDiag W axes sh` is an entry of `W` -/
theorem diag_leaf_form (W : Tensor ℝ) (axes : List Int) (sh : List Nat) (c0 : V) (y0 : Tensor ℝ)
    (h : Diagonal.apply true W (.seq axes) ⟨sh, c0⟩ = .ok y0) :
    (leafDiag W axes sh).length = prodNat sh ∧
    (∀ g : ℝ → ℝ, g default = default → ∀ c : V, c.length = prodNat sh →
      Diagonal.apply true (W.map g) (.seq axes) ⟨sh, c⟩ =
        .ok ⟨sh, List.zipWith (· * ·) ((leafDiag W axes sh).map g) c⟩) ∧
    (W.data.length = prodNat W.shape → ∀ v ∈ leafDiag W axes sh, v ∈ W.data) := by
  have hshape := apply_strict_shape W (.seq axes) ⟨sh, c0⟩ y0 h
  unfold Diagonal.apply at h
  split at h
  · simp at h
  · rename_i h0
    simp only [normalizeSpec] at h
    cases h1 : normalizeAxes axes sh.length with
    | error e => simp [h1, bind, Except.bind] at h
    | ok ax =>
      cases h2 : reshapeDiagonal W ax sh.length with
      | error e => simp [h1, h2, bind, Except.bind] at h
      | ok d =>
        simp only [h1, h2, bind, Except.bind] at h
        have hD : leafDiag W axes sh = (d.broadcastTo sh).data := by
          simp only [leafDiag, h1, h2]
        cases h3 : Tensor.zipBroadcast (· * ·) d (reshapeLeaf (⟨sh, c0⟩ : Tensor ℝ) ax) with
        | none => simp [h3] at h
        | some y =>
          simp only [h3] at h
          split at h
          · simp at h
          · simp only [Except.ok.injEq] at h
            subst h
            simp only at hshape
            -- the broadcast shape is the leaf's shape, hence no dimension is appended to the leaf
            unfold Tensor.zipBroadcast at h3
            simp only [reshapeLeaf] at h3
            cases h4 : broadcastShapes d.shape (sh ++ List.replicate (rightDims ax sh.length) 1) with
            | none => simp [h4] at h3
            | some S =>
              simp only [h4, Option.bind_eq_bind, Option.bind_some, Option.some.injEq] at h3
              have hS : S = sh := by rw [← hshape, ← h3]
              subst hS
              have hlen := broadcastShapes_length _ _ _ h4
              simp only [List.length_append, List.length_replicate] at hlen
              have hr : rightDims ax S.length = 0 := by omega
              rw [hr, List.replicate_zero, List.append_nil] at h4
              obtain ⟨hbc, -⟩ := broadcastShapes_Bc' _ _ _ h4
              refine ⟨by rw [hD]; simp [Tensor.broadcastTo], fun g hg c hc => ?_, fun hw v hv => ?_⟩
              · have h2' := reshapeDiagonal_map g hg W ax S.length d h2
                unfold Diagonal.apply
                simp only [normalizeSpec, Tensor.map] at h2' ⊢
                simp only [h1, h2', bind, Except.bind, reshapeLeaf, hr, List.replicate_zero, List.append_nil,
                  Tensor.zipBroadcast, h4, Option.bind_some, bne_self_eq_false,
                  Bool.and_false, Bool.false_eq_true, if_false]
                rw [broadcastTo_self S c hc, hD]
                have := broadcastTo_map g hg d S
                simp only [Tensor.map] at this
                rw [this]
                first | rfl | rw [if_neg h0]
              · rw [hD] at hv
                obtain ⟨t, ht, rfl⟩ := List.getElem_of_mem hv
                have ht' : t < prodNat S := by simpa [Tensor.broadcastTo] using ht
                have e1 := broadcastTo_getD d S t ht' default
                rw [List.getD_eq_getElem _ _ ht] at e1
                rw [e1]
                have hlt := bIdx_lt _ _ hbc t ht'
                -- `d` is a transposition of the (padded) values
                unfold reshapeDiagonal at h2
                obtain ⟨order, ho, rfl⟩ := moveaxis_ok_inv h2
                simp only at hlt ho ⊢
                have hpl : ∀ m, W.data.length = prodNat (W.shape ++ List.replicate m 1) := by
                  intro m
                  rw [hw]
                  induction m with
                  | zero => simp
                  | succ m ih =>
                    rw [List.replicate_succ', ← List.append_assoc]
                    simp only [prodNat, List.foldl_append, List.foldl_cons, List.foldl_nil, Nat.mul_one] at ih ⊢
                    exact ih
                obtain ⟨j, hj, hjv⟩ := transposeData_getD_mem _ order W.data
                  (moveaxisOrder_perm _ _ _ _ ho) (hpl _) _ hlt
                rw [hjv, List.getD_eq_getElem _ _ hj]
                exact List.getElem_mem _

/-! #### from one leaf to the operator -/

theorem zipWith_mul_append (a b x : V) :
    List.zipWith (· * ·) (a ++ b) x = List.zipWith (· * ·) a (x.take a.length) ++ List.zipWith (· * ·) b (x.drop a.length) := by
  induction a generalizing x with
  | nil => simp
  | cons v a ih =>
    cases x with
    | nil => simp
    | cons w x => simp [ih]

/-- a leaf-wise map that multiplies every leaf entry-wise multiplies entry-wise by the concatenation -/
theorem perLeaf_diag (f : LeafS → LeafS → V → V) (Dof : LeafS → V) (ls : List LeafS)
    (hD : ∀ l ∈ ls, (Dof l).length = l.size)
    (hf : ∀ l ∈ ls, ∀ c : V, c.length = l.size → f l l c = List.zipWith (· * ·) (Dof l) c) :
    ∀ x : V, x.length = (ls.map LeafS.size).sum →
      perLeaf f ls ls x = List.zipWith (· * ·) ((ls.map Dof).flatten) x := by
  induction ls with
  | nil =>
    intro x _
    simp [perLeaf_nil_left]
  | cons l ls ih =>
    intro x hx
    simp only [List.map_cons, List.sum_cons] at hx
    have hle : l.size ≤ x.length := by omega
    have hc : (headChunk l.size x).length = l.size := headChunk_length _ _
    have hDl := hD l List.mem_cons_self
    rw [perLeaf_cons, hf l List.mem_cons_self _ hc,
      ih (fun l' hl' => hD l' (List.mem_cons_of_mem _ hl')) (fun l' hl' => hf l' (List.mem_cons_of_mem _ hl'))
        _ (by rw [List.length_drop]; omega),
      fit_eq_self (by rw [List.length_zipWith, hDl, hc, Nat.min_self]), List.map_cons, List.flatten_cons,
      zipWith_mul_append, hDl, headChunk_of_le hle]

/-- the values of a diagonal operator, broadcast to every leaf of the input structure and concatenated -/
noncomputable def diagVecOf (W : Tensor ℝ) (axes : List Int) (ls : List LeafS) : V :=
  (ls.map fun l => leafDiag W axes l.shape).flatten

/-- **the diagonal of `DiagonalOperator(values, axis_destination=…, in_structure=…)`** as one flat real vector -/
noncomputable def diagVec (p : Params) : V := diagVecOf (castT p.vals) (p.ints.getD 0 []) p.inS.leaves

theorem diagVecOf_length (W : Tensor ℝ) (axes : List Int) (ls : List LeafS)
    (h : ∀ l ∈ ls, ∀ c : V, ∃ y, Diagonal.apply true W (.seq axes) (⟨l.shape, c⟩ : Tensor ℝ) = .ok y ∧ y.shape = l.shape) :
    (diagVecOf W axes ls).length = (ls.map LeafS.size).sum := by
  induction ls with
  | nil => rfl
  | cons l ls ih =>
    obtain ⟨y, hy, -⟩ := h l List.mem_cons_self []
    simp only [diagVecOf, List.map_cons, List.flatten_cons, List.length_append, List.sum_cons] at ih ⊢
    rw [ih (fun l' hl' => h l' (List.mem_cons_of_mem _ hl')), (diag_leaf_form W axes l.shape [] y hy).1]
    rfl

theorem diagVec_length (p : Params) (h : diagonalOK p) : (diagVec p).length = p.inS.size :=
  diagVecOf_length _ _ _ h

/-- the operator of `W.map g` on a structure that accepts `W` multiplies entry-wise by `(diagVecOf W …).map g` -/
theorem perLeaf_diagLeaf (W : Tensor Rat) (g : ℝ → ℝ) (hg : g default = default) (W' : Tensor Rat)
    (hW' : castT W' = (castT W).map g) (axes : List Int) (ls : List LeafS)
    (h : ∀ l ∈ ls, ∀ c : V, ∃ y,
      Diagonal.apply true (castT W) (.seq axes) (⟨l.shape, c⟩ : Tensor ℝ) = .ok y ∧ y.shape = l.shape)
    (x : V) (hx : x.length = (ls.map LeafS.size).sum) :
    perLeaf (diagLeaf true W' axes) ls ls x = List.zipWith (· * ·) ((diagVecOf (castT W) axes ls).map g) x := by
  have key := perLeaf_diag (diagLeaf true W' axes) (fun l => (leafDiag (castT W) axes l.shape).map g) ls
    (fun l hl => by
      obtain ⟨y, hy, -⟩ := h l hl []
      rw [List.length_map, (diag_leaf_form _ axes l.shape [] y hy).1]; rfl)
    (fun l hl c hc => by
      obtain ⟨y, hy, -⟩ := h l hl []
      unfold diagLeaf
      rw [hW', (diag_leaf_form _ axes l.shape [] y hy).2.1 g hg c hc]
      rfl) x hx
  rw [key, diagVecOf]
  congr 1
  simp only [List.map_flatten, List.map_map]
  rfl

theorem tensor_map_id (W : Tensor ℝ) : W.map id = W := by
  cases W; simp [Tensor.map]

/-- **`DiagonalOperator.mv`** on vectors of the input size: the entry-wise product with `diagVec p` -/
theorem den_diagonal (E : Env) (u : Nat) (p : Params) (h : diagonalOK p) (x : V) (hx : x.length = p.inS.size) :
    den E (.leaf u .diagonal p) x = List.zipWith (· * ·) (diagVec p) x := by
  have hD := diagVec_length p h
  rw [den]
  simp only [leafDen, squareLeaf, if_true]
  rw [fit_eq_self hx, perLeaf_diagLeaf p.vals id rfl p.vals (tensor_map_id _).symm _ _ h x hx, List.map_id]
  exact fit_eq_self (by rw [List.length_zipWith, ← diagVec, hD, hx, Nat.min_self])

/-- **`DiagonalInverseOperator.mv`** on vectors of the input size: the entry-wise product with the pseudo-inverse
of `diagVec p` -/
theorem den_diagInv (E : Env) (w u : Nat) (p : Params) (h : diagonalOK p) (x : V) (hx : x.length = p.inS.size) :
    den E (.wrap w .diagInv (.leaf u .diagonal p)) x = List.zipWith (· * ·) ((diagVec p).map pinvR) x := by
  have hD := diagVec_length p h
  rw [den]
  simp only [leafDen, squareLeaf, if_true]
  rw [fit_eq_self hx, perLeaf_diagLeaf p.vals pinvR pinvR_default (pinvT p.vals) (castT_pinvT _) _ _ h x hx]
  exact fit_eq_self (by rw [List.length_zipWith, List.length_map, ← diagVec, hD, hx, Nat.min_self])

/-- every broadcast value is one of the values (well-formed array of values) -/
theorem diagVec_mem (p : Params) (h : diagonalOK p) (hw : p.vals.wellFormed = true) :
    ∀ v ∈ diagVec p, ∃ q ∈ p.vals.data, v = ((q : Rat) : ℝ) := by
  intro v hv
  simp only [diagVec, diagVecOf, List.mem_flatten, List.mem_map] at hv
  obtain ⟨_, ⟨l, hl, rfl⟩, hvl⟩ := hv
  obtain ⟨y, hy, -⟩ := h l hl []
  have hlen : (castT p.vals).data.length = prodNat (castT p.vals).shape := by
    simpa [castT, Tensor.map, Tensor.wellFormed] using hw
  have := (diag_leaf_form _ _ l.shape [] y hy).2.2 hlen v hvl
  simp only [castT, Tensor.map, List.mem_map] at this
  obtain ⟨q, hq, rfl⟩ := this
  exact ⟨q, hq, rfl⟩

/-! #### entry-wise algebra -/

theorem zipWith_pinv_left (D x : V) (hD : ∀ v ∈ D, v ≠ 0) (hlen : D.length = x.length) :
    List.zipWith (· * ·) (D.map pinvR) (List.zipWith (· * ·) D x) = x := by
  induction D generalizing x with
  | nil => cases x with
    | nil => rfl
    | cons _ _ => simp at hlen
  | cons d D ih => cases x with
    | nil => simp at hlen
    | cons v x =>
      have hd : d ≠ 0 := hD d List.mem_cons_self
      simp only [List.map_cons, List.zipWith_cons_cons, List.cons.injEq]
      refine ⟨?_, ih x (fun v hv => hD v (List.mem_cons_of_mem _ hv)) (by simpa using hlen)⟩
      simp only [pinvR, if_neg hd]
      field_simp

theorem zipWith_pinv_right (D x : V) (hD : ∀ v ∈ D, v ≠ 0) (hlen : D.length = x.length) :
    List.zipWith (· * ·) D (List.zipWith (· * ·) (D.map pinvR) x) = x := by
  induction D generalizing x with
  | nil => cases x with
    | nil => rfl
    | cons _ _ => simp at hlen
  | cons d D ih => cases x with
    | nil => simp at hlen
    | cons v x =>
      have hd : d ≠ 0 := hD d List.mem_cons_self
      simp only [List.map_cons, List.zipWith_cons_cons, List.cons.injEq]
      refine ⟨?_, ih x (fun v hv => hD v (List.mem_cons_of_mem _ hv)) (by simpa using hlen)⟩
      simp only [pinvR, if_neg hd]
      field_simp

theorem pinvR_mp1 (d : ℝ) : d * (pinvR d * d) = d := by
  by_cases hd : d = 0
  · subst hd; simp
  · simp only [pinvR, if_neg hd]; field_simp

theorem pinvR_mp2 (d : ℝ) : pinvR d * (d * pinvR d) = pinvR d := by
  by_cases hd : d = 0
  · subst hd; simp [pinvR]
  · simp only [pinvR, if_neg hd]; field_simp

theorem zipWith_mp1 (D x : V) :
    List.zipWith (· * ·) D (List.zipWith (· * ·) (D.map pinvR) (List.zipWith (· * ·) D x)) = List.zipWith (· * ·) D x := by
  induction D generalizing x with
  | nil => simp
  | cons d D ih => cases x with
    | nil => simp
    | cons v x =>
      simp only [List.map_cons, List.zipWith_cons_cons, List.cons.injEq, ih x, and_true]
      rw [← mul_assoc (pinvR d), ← mul_assoc d, pinvR_mp1]

theorem zipWith_mp2 (D x : V) :
    List.zipWith (· * ·) (D.map pinvR) (List.zipWith (· * ·) D (List.zipWith (· * ·) (D.map pinvR) x))
      = List.zipWith (· * ·) (D.map pinvR) x := by
  induction D generalizing x with
  | nil => simp
  | cons d D ih => cases x with
    | nil => simp
    | cons v x =>
      simp only [List.map_cons, List.zipWith_cons_cons, List.cons.injEq, ih x, and_true]
      rw [← mul_assoc d, ← mul_assoc (pinvR d), pinvR_mp2]

/-! #### the theorems -/

/-- the form of `DiagonalOperator.inverse` -/
theorem inverseOp_diagonal (u : Nat) (p : Params) :
    inverseOp (.leaf u .diagonal p) = .ok (.wrap 0 .diagInv (.leaf u .diagonal p)) := by
  simp [inverseOp]

/-- **`DiagonalInverseOperator(D)` inverts a valid `DiagonalOperator` all of whose values are non-zero** (both
ways), whatever the Python identity of the wrapper.  ADDED HYPOTHESIS: the array of values is well formed (as many
entries as its shape says — every JAX array is); without it a missing entry is read as `0`. -/
theorem diagonal_inverts (E : Env) (w u : Nat) (p : Params) (h : diagonalOK p) (hw : p.vals.wellFormed = true)
    (hnz : ∀ v ∈ p.vals.data, v ≠ 0) :
    Inverts E (.leaf u .diagonal p) (.wrap w .diagInv (.leaf u .diagonal p)) := by
  have hD := diagVec_length p h
  have hDnz : ∀ v ∈ diagVec p, v ≠ 0 := by
    intro v hv
    obtain ⟨q, hq, rfl⟩ := diagVec_mem p h hw v hv
    exact_mod_cast hnz q hq
  have hlen1 : ∀ x : V, x.length = p.inS.size → (List.zipWith (· * ·) (diagVec p) x).length = p.inS.size := by
    intro x hx; rw [List.length_zipWith, hD, hx, Nat.min_self]
  have hlen2 : ∀ x : V, x.length = p.inS.size →
      (List.zipWith (· * ·) ((diagVec p).map pinvR) x).length = p.inS.size := by
    intro x hx; rw [List.length_zipWith, List.length_map, hD, hx, Nat.min_self]
  refine ⟨rfl, rfl, fun x _ => (lenAt_leaf E u .diagonal p).1 x, fun y hy => ?_, fun x hx => ?_, fun y hy => ?_⟩
  · have hy' : y.length = p.inS.size := hy
    rw [den_diagInv E w u p h y hy', hlen2 y hy']; rfl
  · have hx' : x.length = p.inS.size := hx
    rw [den_diagonal E u p h x hx', den_diagInv E w u p h _ (hlen1 x hx'),
      zipWith_pinv_left _ _ hDnz (by rw [hD, hx'])]
  · have hy' : y.length = p.inS.size := hy
    rw [den_diagInv E w u p h y hy', den_diagonal E u p h _ (hlen2 y hy'),
      zipWith_pinv_right _ _ hDnz (by rw [hD, hy'])]

/-- **Moore–Penrose**, for ARBITRARY values (zeros allowed): `D D⁺ D = D` and `D⁺ D D⁺ = D⁺` on vectors of the
input size.  `D⁺` is the diagonal operator of `where(d != 0, 1/d, 0)` (`pinvT`, `pinvR`): no division by zero is
performed, no NaN / Inf can arise. -/
theorem diagonal_moore_penrose (E : Env) (w u : Nat) (p : Params) (h : diagonalOK p) (x : V)
    (hx : x.length = p.inS.size) :
    den E (.leaf u .diagonal p) (den E (.wrap w .diagInv (.leaf u .diagonal p)) (den E (.leaf u .diagonal p) x))
      = den E (.leaf u .diagonal p) x ∧
    den E (.wrap w .diagInv (.leaf u .diagonal p))
        (den E (.leaf u .diagonal p) (den E (.wrap w .diagInv (.leaf u .diagonal p)) x))
      = den E (.wrap w .diagInv (.leaf u .diagonal p)) x := by
  have hD := diagVec_length p h
  have hlen1 : ∀ x : V, x.length = p.inS.size → (List.zipWith (· * ·) (diagVec p) x).length = p.inS.size := by
    intro x hx; rw [List.length_zipWith, hD, hx, Nat.min_self]
  have hlen2 : ∀ x : V, x.length = p.inS.size →
      (List.zipWith (· * ·) ((diagVec p).map pinvR) x).length = p.inS.size := by
    intro x hx; rw [List.length_zipWith, List.length_map, hD, hx, Nat.min_self]
  constructor
  · rw [den_diagonal E u p h x hx, den_diagInv E w u p h _ (hlen1 x hx),
      den_diagonal E u p h _ (hlen2 _ (hlen1 x hx)), zipWith_mp1]
  · rw [den_diagInv E w u p h x hx, den_diagonal E u p h _ (hlen2 x hx),
      den_diagInv E w u p h _ (hlen1 _ (hlen2 x hx)), zipWith_mp2]

end diagonal

/-! ### 3. rotations and move-axis operators -/

/-- **`QURotationOperator.inverse`** (orthogonal: the inverse is the transpose): `qurot_inv_wrap` restated for
`inverseOp` -/
theorem qurot_inverts (E : Env) (u : Nat) (p : Params) (h : stokesOK .qurot p) :
    inverseOp (.leaf u .qurot p) = .ok (.wrap 0 .qurotT (.leaf u .qurot p)) ∧
    Inverts E (.leaf u .qurot p) (.wrap 0 .qurotT (.leaf u .qurot p)) := by
  refine ⟨by simp [inverseOp], rfl, rfl, fun x _ => (lenAt_leaf E u .qurot p).1 x, fun y _ => ?_,
    fun x hx => (qurot_inv_wrap E 0 u p h x hx).1, fun y hy => (qurot_inv_wrap E 0 u p h y hy).2⟩
  rw [den.eq_5 _ _ _ _ (by simp) (by simp) (by simp)]
  exact (lenAt_leaf E u .qurot p).2 y

/-- the parameters of the swapped move-axis operator (`MoveAxisOperator.transpose`) -/
def swapMoveAxis (p : Params) : Params :=
  { p with inS := p.outS, outS := p.inS, ints := [p.ints.getD 1 [], p.ints.getD 0 []] }

/-- **the swapped move-axis operator is valid as soon as the operator is**: if `moveaxis(·, src, dst)` is accepted
on a leaf, `moveaxis(·, dst, src)` is accepted on the result and gives back the leaf's shape (the axis orders are
inverse permutations, FuraxProofs/Lemmas/MoveAxisPerm.lean) -/
theorem moveAxisOK_swap (p : Params) (h : moveAxisOK p) : moveAxisOK (swapMoveAxis p) := by
  obtain ⟨htd, hf⟩ := h
  refine ⟨htd.symm, ?_⟩
  show List.Forall₂ _ p.outS.leaves p.inS.leaves
  have h01 : (swapMoveAxis p).ints.getD 0 [] = p.ints.getD 1 [] := rfl
  have h10 : (swapMoveAxis p).ints.getD 1 [] = p.ints.getD 0 [] := rfl
  rw [h01, h10]
  refine List.Forall₂.flip (List.Forall₂.imp ?_ hf)
  rintro li lo ⟨o, ho, hs, hd⟩
  have hlen : lo.shape.length = li.shape.length := by
    rw [hs, Axes.ma_transposeShape_length]
    simpa using (Axes.moveaxisOrder_perm _ _ _ _ ho).length_eq
  obtain ⟨o', ho'⟩ := Axes.moveaxisOrder_swap_ok _ _ _ o ho
  refine ⟨o', by rw [hlen]; exact ho', ?_, hd.symm⟩
  rw [hs]
  exact (Axes.moveaxis_inverse_shape _ _ _ o o' li.shape ho ho' rfl).symm

/-- **`MoveAxisOperator.inverse`** (`= transpose`): `inverseOp` of a valid move-axis leaf builds the swapped leaf,
which undoes it (`moveaxis_pair`, both ways) -/
theorem moveAxis_inverts (E : Env) (u : Nat) (p : Params) (h : moveAxisOK p) :
    inverseOp (.leaf u .moveAxis p) = .ok (.leaf 0 .moveAxis (swapMoveAxis p)) ∧
    Inverts E (.leaf u .moveAxis p) (.leaf 0 .moveAxis (swapMoveAxis p)) := by
  have h' := moveAxisOK_swap p h
  refine ⟨by simp [inverseOp, swapMoveAxis], rfl, rfl, fun x _ => (lenAt_leaf E u .moveAxis p).1 x,
    fun y _ => (lenAt_leaf E 0 .moveAxis _).1 y, fun x hx => ?_, fun y hy => ?_⟩
  · exact (moveaxis_pair E 0 (swapMoveAxis p) u p h' h rfl rfl rfl).2 x hx
  · exact (moveaxis_pair E u p 0 (swapMoveAxis p) h h' rfl rfl rfl).2 y hy

/-! ### 4. the lazy wrappers -/

/-- `A.I.I` is `A` for the three lazy-inverse classes -/
theorem inverseOp_wrap (u : Nat) (k : WrapCls) (o : Op) (hk : k.isLazy) : inverseOp (.wrap u k o) = .ok o := by
  rcases hk with rfl | rfl | rfl <;> simp [inverseOp]

theorem den_wrap_length (E : Env) (u : Nat) (k : WrapCls) (o : Op) (hk : k.isLazy)
    (hq : k = .qurotT → o.isQURot = true) (hsq : Op.inS o = Op.outS o) (x : V) :
    (den E (.wrap u k o) x).length = inSize o := by
  rcases hk with rfl | rfl | rfl
  · rw [den, chooseInv_length]
  · have := hq rfl
    cases o with
    | leaf u' c p =>
      have hc : LeafCls.qurot = c := by simpa [isQURot, isLeafCls] using this
      subst hc
      rw [den.eq_5 _ _ _ _ (by simp) (by simp) (by simp)]
      exact (lenAt_leaf E u' .qurot p).2 x
    | _ => simp [isQURot, isLeafCls] at this
  · by_cases hd : ∃ u' p, o = .leaf u' .diagonal p
    · obtain ⟨u', p, rfl⟩ := hd
      rw [den, leafDen_length]; rfl
    · have hd' : ∀ (u' : ℕ) (p : Params), o = leaf u' LeafCls.diagonal p → False :=
        fun u' p h => hd ⟨u', p, h⟩
      rw [den.eq_4 _ _ _ hd', chooseInv_length]

/-- **the inverse of a lazy inverse is its operand**, and the operand inverts the wrapper whenever the wrapper
inverts the operand (`invertibleG E o`, the hypothesis of the arithmetic laws) -/
theorem wrap_inverts (E : Env) (u : Nat) (k : WrapCls) (o : Op) (hk : k.isLazy)
    (hq : k = .qurotT → o.isQURot = true) (hs : StructOK o) (hsq : Op.inS o = Op.outS o)
    (hi : invertibleG E o) :
    inverseOp (.wrap u k o) = .ok o ∧ Inverts E (.wrap u k o) o := by
  refine ⟨inverseOp_wrap u k o hk, ?_⟩
  have hin : Op.inS (.wrap u k o) = Op.outS o := by rcases hk with rfl | rfl | rfl <;> first | rfl | exact hsq
  have hout : Op.outS (.wrap u k o) = Op.inS o := by rcases hk with rfl | rfl | rfl <;> rfl
  have hinz : inSize (.wrap u k o) = outSize o := by unfold inSize outSize; rw [hin]
  have houtz : outSize (.wrap u k o) = inSize o := by unfold inSize outSize; rw [hout]
  refine ⟨hout.symm, hin.symm, fun x _ => ?_, fun y _ => ?_, fun x hx => ?_, fun y hy => ?_⟩
  · rw [houtz]; exact den_wrap_length E u k o hk hq hsq x
  · rw [hinz]; exact den_length E o hs y
  · exact inv_rightG E u k o hi hk hq x hx
  · exact inv_leftG E u k o hi hk hq y (by rw [mem, hy, houtz]; rfl)

/-! ### 5. block diagonals -/

theorem diagApp_inverts (E : Env) (ops is : List Op) (h : List.Forall₂ (Inverts E) ops is) :
    ∀ x : V, x.length = (ops.map inSize).sum → diagApp E is (diagApp E ops x) = x := by
  induction h with
  | nil =>
    intro x hx
    simp only [List.map_nil, List.sum_nil, List.length_eq_zero_iff] at hx
    simp [diagApp, hx]
  | @cons o i os is hoi _ ih =>
    intro x hx
    simp only [List.map_cons, List.sum_cons] at hx
    have hle : inSize o ≤ x.length := by omega
    have hc : (headChunk (inSize o) x).length = inSize o := headChunk_length _ _
    have hA : (den E o (headChunk (inSize o) x)).length = inSize i := by
      rw [hoi.len _ hc, hoi.inSize_eq]
    have h1 : diagApp E (o :: os) x
        = den E o (headChunk (inSize o) x) ++ diagApp E os (x.drop (inSize o)) := by
      rw [diagApp, fit_eq_self (by rw [hA, hoi.inSize_eq])]
    rw [h1, diagApp, headChunk_append _ hA, hoi.left _ hc, drop_append_of_length _ _ hA,
      ih _ (by rw [List.length_drop]; omega), hoi.outSize_eq, fit_eq_self hc, headChunk_of_le hle,
      List.take_append_drop]

theorem inSList_of_inverts {E : Env} {ops is : List Op} (h : List.Forall₂ (Inverts E) ops is) :
    inSList is = outSList ops ∧ outSList is = inSList ops := by
  induction h with
  | nil => exact ⟨rfl, rfl⟩
  | cons hoi _ ih => simp only [inSList, outSList, hoi.inS_eq, hoi.outS_eq, ih.1, ih.2, and_self]

/-- **`BlockDiagonalOperator.inverse`, semantically**: the block diagonal of operators inverting the blocks inverts
the block diagonal -/
theorem blockDiag_inverts_of (E : Env) (u u' : Nat) (td : TreeDef) (ops is : List Op)
    (h : List.Forall₂ (Inverts E) ops is) :
    Inverts E (.cont u .blockDiag td ops) (.cont u' .blockDiag td is) := by
  obtain ⟨h1, h2⟩ := inSList_of_inverts h
  have hin : inSize (.cont u .blockDiag td ops) = (ops.map inSize).sum := by
    simp [inSize, Op.inS, nest_size, inSList_sizes]
  have hout : outSize (.cont u .blockDiag td ops) = (ops.map outSize).sum := by
    simp [outSize, Op.outS, nest_size, outSList_sizes]
  have hflip : List.Forall₂ (Inverts E) is ops := (h.imp fun _ _ hab => hab.symm).flip
  have hsum : (is.map inSize).sum = (ops.map outSize).sum := by
    rw [← inSList_sizes, ← outSList_sizes, h1]
  refine ⟨by simp only [Op.inS, Op.outS, h1], by simp only [Op.inS, Op.outS, h2], fun x _ => ?_, fun y _ => ?_,
    fun x hx => ?_, fun y hy => ?_⟩
  · rw [den, diagApp_length, hout]
  · rw [den, diagApp_length, hin, ← outSList_sizes, h2, inSList_sizes]
  · rw [den, den]
    exact diagApp_inverts E ops is h x (by rw [hx, hin])
  · rw [den, den]
    exact diagApp_inverts E is ops hflip y (by rw [hy, hout, hsum])

theorem inverseList_cons_ok (o : Op) (os is : List Op) (h : inverseList (o :: os) = .ok is) :
    ∃ i is', inverseOp o = .ok i ∧ inverseList os = .ok is' ∧ is = i :: is' := by
  rw [inverseList] at h
  cases h1 : inverseOp o with
  | error e => rw [h1] at h; cases h2 : inverseList os <;> rw [h2] at h <;> simp at h
  | ok i =>
    cases h2 : inverseList os with
    | error e => rw [h1, h2] at h; simp at h
    | ok is' =>
      rw [h1, h2] at h
      simp only [Except.ok.injEq] at h
      exact ⟨i, is', rfl, rfl, h.symm⟩

/-- the form of `BlockDiagonalOperator.inverse` when every block is square -/
theorem inverseOp_blockDiag_square (u : Nat) (td : TreeDef) (ops : List Op) (i : Op)
    (hsq : ∀ b ∈ ops, Op.inS b = Op.outS b) (h : inverseOp (.cont u .blockDiag td ops) = .ok i) :
    ∃ is, inverseList ops = .ok is ∧ i = .cont 0 .blockDiag td is := by
  have hall : ops.all (fun b => Op.inS b == Op.outS b) = true := by
    rw [List.all_eq_true]; intro b hb; simpa using hsq b hb
  simp only [inverseOp, hall, if_true] at h
  cases h2 : inverseList ops with
  | error e => rw [h2] at h; simp at h
  | ok is =>
    rw [h2] at h
    simp only [Except.ok.injEq] at h
    exact ⟨is, rfl, h.symm⟩

/-! ### 6. the general statement -/

/-- the leaf classes with a closed-form inverse, and what makes it an inverse -/
def leafInvertible : LeafCls → Params → Prop
  | .identity, _ => True
  | .homothety, p => p.vals.data.headD 1 ≠ 0
  | .diagonal, p => diagonalOK p ∧ p.vals.wellFormed = true ∧ ∀ v ∈ p.vals.data, v ≠ 0
  | .qurot, p => stokesOK .qurot p
  | .moveAxis, p => moveAxisOK p
  | _, _ => False

mutual
/-- **the operators whose `.I` is a closed form that inverts**: identities, non-zero scalar operators, valid
diagonal operators all of whose values are non-zero, valid rotations, valid move-axis operators, the three lazy
wrappers around a (structurally well-formed, square) operand they invert (`invertibleG E`), and block diagonals of
SQUARE such operators — recursively -/
def ClosedFormInvertible (E : Env) : Op → Prop
  | .leaf _ c p => leafInvertible c p
  | .wrap _ k o =>
    k.isLazy ∧ (k = .qurotT → o.isQURot = true) ∧ StructOK o ∧ Op.inS o = Op.outS o ∧ invertibleG E o
  | .comp _ _ => False
  | .cont _ k _ ops => k = .blockDiag ∧ ClosedFormInvertibleList E ops
def ClosedFormInvertibleList (E : Env) : List Op → Prop
  | [] => True
  | o :: os => Op.inS o = Op.outS o ∧ ClosedFormInvertible E o ∧ ClosedFormInvertibleList E os
end

theorem ClosedFormInvertibleList_iff (E : Env) (ops : List Op) :
    ClosedFormInvertibleList E ops ↔ ∀ o ∈ ops, Op.inS o = Op.outS o ∧ ClosedFormInvertible E o := by
  induction ops with
  | nil => simp [ClosedFormInvertibleList]
  | cons o os ih => simp [ClosedFormInvertibleList, ih, and_assoc]

theorem leaf_inverts (E : Env) (u : Nat) (c : LeafCls) (p : Params) (i : Op) (h : leafInvertible c p)
    (hi : inverseOp (.leaf u c p) = .ok i) : Inverts E (.leaf u c p) i := by
  cases c with
  | identity =>
    obtain ⟨h1, h2⟩ := identity_inverts E u p
    rw [h1] at hi; cases hi; exact h2
  | homothety =>
    obtain ⟨h1, h2⟩ := homothety_inverts E u p h
    rw [h1] at hi; cases hi; exact h2
  | diagonal =>
    rw [inverseOp_diagonal] at hi; cases hi
    exact diagonal_inverts E 0 u p h.1 h.2.1 h.2.2
  | qurot =>
    obtain ⟨h1, h2⟩ := qurot_inverts E u p h
    rw [h1] at hi; cases hi; exact h2
  | moveAxis =>
    obtain ⟨h1, h2⟩ := moveAxis_inverts E u p h
    rw [h1] at hi; cases hi; exact h2
  | _ => exact h.elim

mutual
/-- **C06, closed**: for every closed-form invertible operator, `op.I` (as built by `inverseOp`) denotes a
two-sided inverse of `op` -/
theorem inverseOp_inverts' (E : Env) : ∀ (o i : Op), ClosedFormInvertible E o → inverseOp o = .ok i → Inverts E o i
  | .leaf u c p, i, h, hi => by
    simp only [ClosedFormInvertible] at h
    exact leaf_inverts E u c p i h hi
  | .wrap u k o, i, h, hi => by
    simp only [ClosedFormInvertible] at h
    obtain ⟨hk, hq, hs, hsq, hinv⟩ := h
    obtain ⟨h1, h2⟩ := wrap_inverts E u k o hk hq hs hsq hinv
    rw [h1] at hi; cases hi; exact h2
  | .comp _ _, _, h, _ => by
    simp only [ClosedFormInvertible] at h
  | .cont u k td ops, i, h, hi => by
    simp only [ClosedFormInvertible] at h
    obtain ⟨rfl, hl⟩ := h
    obtain ⟨is, his, rfl⟩ := inverseOp_blockDiag_square u td ops i
      (fun b hb => ((ClosedFormInvertibleList_iff E ops).mp hl b hb).1) hi
    exact blockDiag_inverts_of E u 0 td ops is (inverseList_inverts E ops is hl his)
theorem inverseList_inverts (E : Env) : ∀ (ops is : List Op), ClosedFormInvertibleList E ops →
    inverseList ops = .ok is → List.Forall₂ (Inverts E) ops is
  | [], is, _, hi => by
    rw [inverseList] at hi; cases hi; exact .nil
  | o :: os, is, h, hi => by
    simp only [ClosedFormInvertibleList] at h
    obtain ⟨i, is', h1, h2, rfl⟩ := inverseList_cons_ok o os is hi
    exact .cons (inverseOp_inverts' E o i h.2.1 h1) (inverseList_inverts E os is' h.2.2 h2)
end

/-- **C06, closed, in the requested shape**: `op.I` has the transposed structures and inverts on both sides -/
theorem inverseOp_inverts (E : Env) (o i : Op) (h : ClosedFormInvertible E o) (hi : inverseOp o = .ok i) :
    Op.inS i = Op.outS o ∧ Op.outS i = Op.inS o ∧
    (∀ x : V, x.length = inSize o → den E i (den E o x) = x) ∧
    (∀ y : V, y.length = outSize o → den E o (den E i y) = y) :=
  (inverseOp_inverts' E o i h hi).spec

/-- **`BlockDiagonalOperator.inverse`** (item 5): if every block is square and `inverseOp` of every block inverts it,
`inverseOp` of the block diagonal is the block diagonal of the blocks' inverses, and inverts it -/
theorem blockDiag_inverts (E : Env) (u : Nat) (td : TreeDef) (ops : List Op) (i : Op)
    (hsq : ∀ b ∈ ops, Op.inS b = Op.outS b)
    (hb : ∀ b ∈ ops, ∀ ib, inverseOp b = .ok ib → Inverts E b ib)
    (hi : inverseOp (.cont u .blockDiag td ops) = .ok i) :
    ∃ is, inverseList ops = .ok is ∧ i = .cont 0 .blockDiag td is ∧ List.Forall₂ (Inverts E) ops is ∧
      Inverts E (.cont u .blockDiag td ops) i := by
  obtain ⟨is, his, rfl⟩ := inverseOp_blockDiag_square u td ops i hsq hi
  have hf : List.Forall₂ (Inverts E) ops is := by
    clear hi hsq
    induction ops generalizing is with
    | nil => rw [inverseList] at his; cases his; exact .nil
    | cons o os ih =>
      obtain ⟨i, is', h1, h2, rfl⟩ := inverseList_cons_ok o os is his
      exact .cons (hb o List.mem_cons_self i h1) (ih (fun b hb' => hb b (List.mem_cons_of_mem _ hb')) is' h2)
  exact ⟨is, his, rfl, hf, blockDiag_inverts_of E u 0 td ops is hf⟩

/-- the same, constructively: from the blocks' inverses to the inverse of the block diagonal -/
theorem blockDiag_inverts_build (E : Env) (u : Nat) (td : TreeDef) (ops is : List Op)
    (hsq : ∀ b ∈ ops, Op.inS b = Op.outS b)
    (h : List.Forall₂ (fun b ib => inverseOp b = .ok ib ∧ Inverts E b ib) ops is) :
    inverseOp (.cont u .blockDiag td ops) = .ok (.cont 0 .blockDiag td is) ∧
    Inverts E (.cont u .blockDiag td ops) (.cont 0 .blockDiag td is) := by
  have hall : ops.all (fun b => Op.inS b == Op.outS b) = true := by
    rw [List.all_eq_true]; intro b hb; simpa using hsq b hb
  have hl : inverseList ops = .ok is := by
    clear hsq hall
    induction h with
    | nil => rw [inverseList]
    | cons hb _ ih => rw [inverseList, hb.1, ih]
  refine ⟨by simp only [inverseOp, hall, if_true, hl], ?_⟩
  exact blockDiag_inverts_of E u 0 td ops is (h.imp fun _ _ hab => hab.2)

/-! ### everything else goes to the lazy `InverseOperator` -/

/-- the operators for which `inverseOp` has a closed form -/
def hasClosedForm : Op → Bool
  | .leaf _ c _ => c == .identity || c == .homothety || c == .diagonal || c == .qurot || c == .moveAxis
  | .wrap _ k _ => k == .diagInv || k == .qurotT || k == .inverse
  | .cont _ .blockDiag _ ops => ops.all (fun b => Op.inS b == Op.outS b)
  | _ => false

/-- **every other operator** (the other leaf classes, the non-lazy transposes, compositions, sums, block rows and
columns, block diagonals with a non-square block) **goes to the lazy `InverseOperator`** -/
theorem inverseOp_lazy (o : Op) (h : hasClosedForm o = false) : inverseOp o = mkInverse o := by
  cases o with
  | leaf u c p => cases c <;> first | rfl | simp [hasClosedForm] at h
  | wrap u k o => cases k <;> first | rfl | simp [hasClosedForm] at h
  | comp u ops => rfl
  | cont u k td ops =>
    cases k with
    | blockDiag =>
      simp only [hasClosedForm] at h
      simp [inverseOp, h]
    | _ => rfl

/-- … which refuses non-square operands … -/
theorem mkInverse_nonsquare (o : Op) (h : Op.inS o ≠ Op.outS o) : mkInverse o = .error .valueError := by
  simp [mkInverse, h]

/-- … and otherwise wraps the REDUCED operand -/
theorem mkInverse_ok (o i : Op) (h : mkInverse o = .ok i) :
    Op.inS o = Op.outS o ∧ ∃ r, reduceTop o = .ok r ∧ i = .wrap 0 .inverse r := by
  unfold mkInverse at h
  by_cases hsq : Op.inS o = Op.outS o
  · have : (Op.inS o != Op.outS o) = false := by simpa using hsq
    rw [this] at h
    simp only [Bool.false_eq_true, if_false] at h
    cases hr : reduceTop o with
    | error e => rw [hr] at h; simp at h
    | ok r =>
      rw [hr] at h
      simp only [Except.ok.injEq] at h
      exact ⟨hsq, r, rfl, h.symm⟩
  · simp [hsq] at h

/-- **the lazy inverse inverts** (assumption A4: the solver is exact) a well-formed operand that has an inverse on
the vectors of its input size: `reduce()` keeps the denotation (`reduceTop_sound_closed`), `chooseInv` finds the
inverse -/
theorem mkInverse_inverts (E : Env) (o i : Op) (hw : WTExpr (listArithSem E).invertible listLeafOK o)
    (hinv : ∃ g, IsInvOn (inSize o) (den E o) g) (hi : mkInverse o = .ok i) : Inverts E o i := by
  obtain ⟨hsq, r, hr, rfl⟩ := mkInverse_ok o i hi
  obtain ⟨hwr, hin, hout, hden⟩ := reduceTop_sound_closed E o r hw hr
  have hso : StructOK o := hw.structOK
  have hsr : StructOK r := hwr.structOK
  have hinz : inSize r = inSize o := by unfold inSize; rw [hin]
  have houtz : outSize o = inSize o := by unfold inSize outSize; rw [hsq]
  obtain ⟨g, hg⟩ := hinv
  have hg' : IsInvOn (inSize r) (den E r) g := by
    rw [hinz]
    refine ⟨fun x hx => ?_, hg.2⟩
    obtain ⟨h1, h2, h3⟩ := hg.1 x hx
    exact ⟨h1, by rw [hden _ h1]; exact h2, by rw [hden _ hx]; exact h3⟩
  have hK := invertibleK_inverse E r hsr (by rw [hin, hout, hsq]) ⟨g, hg'⟩
  refine ⟨by show Op.outS r = Op.outS o; exact hout, by show Op.inS r = Op.inS o; exact hin,
    fun x _ => den_length E o hso x, fun y _ => ?_, fun x hx => ?_, fun y hy => ?_⟩
  · rw [den, chooseInv_length, hinz]
  · rw [← hden x hx]
    exact hK.1 x (by rw [hinz]; exact hx)
  · have hy' : y.length = inSize o := by rw [hy, houtz]
    have hl : (den E (.wrap 0 .inverse r) y).length = inSize o := by rw [den, chooseInv_length, hinz]
    rw [← hden _ hl]
    exact hK.2 y (by show y.length = (Op.outS r).size; rw [hout, ← hsq]; exact hy')

/-! ### non-vacuity: a nested block diagonal -/

namespace InverseExamples
open Examples

/-- a vector of two `float64` entries with the diagonal values 2 and -3 -/
def diagP : Params := { inS := s1, outS := s1, vals := ⟨[2], [2, -3]⟩, ints := [[0]] }

theorem diagP_ok : diagonalOK diagP := by
  intro l hl c
  simp only [diagP, s1, List.mem_singleton] at hl
  subst hl
  obtain ⟨y, hy, hys, -⟩ := Diagonal.apply_inrange_bcast true (castT diagP.vals) (⟨[2], c⟩ : Tensor ℝ) [0]
    (by simp [castT, Tensor.map, diagP]) (by simp [castT, Tensor.map, diagP]) (by simp)
    (by intro a ha; simp only [List.mem_singleton] at ha; subst ha; simp)
    (by intro k hk
        have : k = 0 := by simp [castT, Tensor.map, diagP] at hk; omega
        subst this; left; rfl)
  exact ⟨y, hy, hys⟩

/-- `BlockDiagonal([ 5·I , BlockDiagonal([ Diagonal([2, -3]) , QURotation ]) ])` -/
def nested : Op :=
  .cont 30 .blockDiag td2
    [ .leaf 21 .homothety { inS := s2, outS := s2, vals := Tensor.scalar 5 },
      .cont 31 .blockDiag td2 [ .leaf 22 .diagonal diagP, .leaf 3 .qurot rotP ] ]

theorem nested_closed (E : Env) : ClosedFormInvertible E nested := by
  simp only [nested, ClosedFormInvertible, ClosedFormInvertibleList, leafInvertible]
  refine ⟨trivial, rfl, by decide, rfl, ⟨trivial, rfl, ⟨diagP_ok, rfl, by decide⟩, rfl, rotP_ok, trivial⟩, trivial⟩

/-- its `.I`, computed by the model -/
theorem nested_inverse : inverseOp nested = .ok
    (.cont 0 .blockDiag td2
      [ mkHomothety (1 / 5) s2,
        .cont 0 .blockDiag td2 [ .wrap 0 .diagInv (.leaf 22 .diagonal diagP), .wrap 0 .qurotT (.leaf 3 .qurot rotP) ] ]) := by
  with_unfolding_all rfl

/-- … inverts it on the 3 + 2 + 18 = 23 entries, by the general theorem -/
example (E : Env) (x : V) (hx : x.length = 23) :
    den E (.cont 0 .blockDiag td2
      [ mkHomothety (1 / 5) s2,
        .cont 0 .blockDiag td2 [ .wrap 0 .diagInv (.leaf 22 .diagonal diagP), .wrap 0 .qurotT (.leaf 3 .qurot rotP) ] ])
      (den E nested x) = x :=
  (inverseOp_inverts E nested _ (nested_closed E) nested_inverse).2.2.1 x hx

/-! #### the well-formedness of the array of values is needed in `diagonal_inverts` -/

/-- values declared of shape `(2,)` with ONE entry: the shapes are fine (`diagonalOK`), the only entry is non-zero -/
def badP : Params := { inS := s1, outS := s1, vals := ⟨[2], [5]⟩, ints := [[0]] }

theorem badP_ok : diagonalOK badP := by
  intro l hl c
  simp only [badP, s1, List.mem_singleton] at hl
  subst hl
  obtain ⟨y, hy, hys, -⟩ := Diagonal.apply_inrange_bcast true (castT badP.vals) (⟨[2], c⟩ : Tensor ℝ) [0]
    (by simp [castT, Tensor.map, badP]) (by simp [castT, Tensor.map, badP]) (by simp)
    (by intro a ha; simp only [List.mem_singleton] at ha; subst ha; simp)
    (by intro k hk
        have : k = 0 := by simp [castT, Tensor.map, badP] at hk; omega
        subst this; left; rfl)
  exact ⟨y, hy, hys⟩

/-- the missing entry is read as `0` -/
theorem bad_diagVec : diagVec badP = [((5 : Rat) : ℝ), 0] := by
  with_unfolding_all rfl

/-- … so the pseudo-inverse is not an inverse, although every entry of `vals.data` is non-zero -/
theorem wellFormed_needed (E : Env) :
    diagonalOK badP ∧ (∀ v ∈ badP.vals.data, v ≠ 0) ∧
    den E (.wrap 0 .diagInv (.leaf 1 .diagonal badP)) (den E (.leaf 1 .diagonal badP) [1, 1]) ≠ [1, 1] := by
  refine ⟨badP_ok, by decide, ?_⟩
  rw [den_diagonal E 1 badP badP_ok [1, 1] rfl, bad_diagVec,
    den_diagInv E 0 1 badP badP_ok _ rfl, bad_diagVec]
  simp [pinvR]

end InverseExamples


end ListSem
end Furax
