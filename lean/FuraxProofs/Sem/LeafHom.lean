/-
The leaf kernels of the list denotation (FuraxProofs/Sem/ListSem.lean) commute with multiplication by a scalar
(`leafHom : LeafHom E`), for EVERY input list, and return vectors of the declared size (`leafDen_length`,
`leafDenT_length`).
-/
import FuraxProofs.Sem.ListSemLaws
import FuraxProofs.Sem.ToeplitzLeaf
import FuraxProofs.Sem.DenseLeaf
namespace Furax
namespace ListSem
open Op


/-! ### plumbing: `fit`, `headChunk`, `chunks`, `perLeaf` -/


theorem getD_smul (a : ℝ) (x : V) (i : Nat) : (x.map fun v => a * v).getD i 0 = a * x.getD i 0 := by
  simp only [List.getD_eq_getElem?_getD, List.getElem?_map]
  cases x[i]? <;> simp

theorem getD_smul' (a : ℝ) (x : V) (i : Nat) : (x.map fun v => a * v).getD i default = a * x.getD i default := by
  rw [real_default]; exact getD_smul a x i

theorem takeD_smul (a : ℝ) : ∀ (n : Nat) (x : V),
    (x.map fun v => a * v).takeD n 0 = (x.takeD n 0).map fun v => a * v
  | 0, _ => rfl
  | n + 1, [] => by simp
  | n + 1, v :: x => by simp [takeD_smul a n x]

theorem fit_smul (n : Nat) : Hom (fit n) := fun a x => takeD_smul a n x


theorem headChunk_smul (n : Nat) : Hom (headChunk n) := fun a x => by
  unfold headChunk
  rw [← List.map_take, fit_smul]

theorem chunks_smul (a : ℝ) : ∀ (ns : List Nat) (x : V),
    chunks ns (x.map fun v => a * v) = (chunks ns x).map fun c => c.map fun v => a * v
  | [], _ => rfl
  | n :: ns, x => by
    simp only [chunks, List.map_cons]
    rw [headChunk_smul, ← List.map_drop, chunks_smul a ns]

theorem perLeaf_smul (f : LeafS → LeafS → V → V) (hf : ∀ li lo, Hom (f li lo)) (ins outs : List LeafS) :
    Hom (perLeaf f ins outs) := fun a x => by
  unfold perLeaf
  rw [chunks_smul, List.map_flatten, List.map_map]
  generalize chunks (ins.map LeafS.size) x = cs
  generalize ins.zip outs = zs
  congr 1
  induction zs generalizing cs with
  | nil => simp
  | cons z zs ih =>
    cases cs with
    | nil => simp
    | cons c cs =>
      simp only [List.map_cons, List.zip_cons_cons, Function.comp, List.cons.injEq]
      refine ⟨?_, ih cs⟩
      rw [hf, fit_smul]

/-! ### move-axis, gather, scatter -/

theorem transposeData_smul (shape order : List Nat) (a : ℝ) (x : V) :
    Axes.transposeData shape order (x.map fun v => a * v) =
      (Axes.transposeData shape order x).map fun v => a * v := by
  unfold Axes.transposeData
  simp only [List.map_map]
  apply List.map_congr_left
  intro k _
  simp only [Function.comp, getD_smul']

theorem moveLeaf_smul (src dst : List Int) (li lo : LeafS) : Hom (moveLeaf src dst li lo) := fun a x => by
  unfold moveLeaf Axes.moveaxis
  cases h : Axes.moveaxisOrder (List.length li.shape) src dst with
  | error e => simp [exData, bind, Except.bind]
  | ok order => simp [exData, bind, Except.bind, pure, Except.pure, transposeData_smul]

theorem gather_smul (pos : List Nat) : Hom (Index.gather pos) := fun a x => by
  unfold Index.gather
  simp only [List.map_map]
  apply List.map_congr_left
  intro k _
  simp only [Function.comp, getD_smul']

theorem gatherLeaf_smul (idx : List IdxEntry) (li lo : LeafS) : Hom (gatherLeaf idx li lo) := fun a x => by
  unfold gatherLeaf
  split
  · exact gather_smul _ a x
  · rfl

theorem foldl_sum_smul (a : ℝ) (l : List (Nat × ℝ)) : ∀ (c : ℝ),
    (l.map fun q => (q.1, a * q.2)).foldl (fun acc (q : Nat × ℝ) => acc + q.2) (a * c) =
      a * l.foldl (fun acc (q : Nat × ℝ) => acc + q.2) c := by
  induction l with
  | nil => intro c; rfl
  | cons q l ih =>
    intro c
    simp only [List.map_cons, List.foldl_cons]
    rw [← mul_add, ih]

theorem scatterAdd_smul (n : Nat) (pos : List Nat) : Hom (Index.scatterAdd n pos) := fun a y => by
  unfold Index.scatterAdd
  simp only [List.map_map]
  apply List.map_congr_left
  intro p _
  simp only [Function.comp]
  have hz : pos.zip (y.map fun v => a * v) = (pos.zip y).map fun q => (q.1, a * q.2) := by
    rw [List.zip_map_right]; rfl
  rw [hz, List.filter_map]
  have := foldl_sum_smul a ((pos.zip y).filter fun (q : Nat × ℝ) => q.1 == p) 0
  rw [mul_zero] at this
  exact this

theorem scatterLeaf_smul (idx : List IdxEntry) (lo li : LeafS) : Hom (scatterLeaf idx lo li) := fun a x => by
  unfold scatterLeaf
  split
  · exact scatterAdd_smul _ _ a x
  · rfl

/-! ### diagonal -/

theorem broadcastTo_smul (sh : List Nat) (a : ℝ) (x : V) (shape : List Nat) :
    ((⟨sh, x.map fun v => a * v⟩ : Tensor ℝ).broadcastTo shape).data =
      ((⟨sh, x⟩ : Tensor ℝ).broadcastTo shape).data.map fun v => a * v := by
  unfold Tensor.broadcastTo
  simp only [List.map_map]
  apply List.map_congr_left
  intro k _
  simp only [Function.comp, getD_smul']

theorem zipWith_mul_smul (a : ℝ) : ∀ (d x : V),
    List.zipWith (· * ·) d (x.map fun v => a * v) = (List.zipWith (· * ·) d x).map fun v => a * v
  | [], _ => by simp
  | _ :: _, [] => by simp
  | u :: d, v :: x => by
    simp only [List.map_cons, List.zipWith_cons_cons, zipWith_mul_smul a d x, List.cons.injEq, and_true]
    ring

theorem zipBroadcast_smul (d : Tensor ℝ) (sh : List Nat) (a : ℝ) (x : V) :
    Tensor.zipBroadcast (· * ·) d ⟨sh, x.map fun v => a * v⟩ =
      (Tensor.zipBroadcast (· * ·) d ⟨sh, x⟩).map fun t => ⟨t.shape, t.data.map fun v => a * v⟩ := by
  unfold Tensor.zipBroadcast
  cases broadcastShapes d.shape sh with
  | none => rfl
  | some shape =>
    simp only [Option.bind_eq_bind, Option.bind_some, Option.map_some, Option.some.injEq, Tensor.mk.injEq,
      true_and]
    rw [broadcastTo_smul, zipWith_mul_smul]

theorem diagLeaf_smul (strict : Bool) (vals : Tensor Rat) (axes : List Int) (li lo : LeafS) :
    Hom (diagLeaf strict vals axes li lo) := fun a x => by
  unfold diagLeaf Diagonal.apply
  simp only []
  split
  · rfl
  · cases Diagonal.normalizeAxes (Diagonal.normalizeSpec (castT vals).shape.length (.seq axes)) li.shape.length with
    | error e => rfl
    | ok ax =>
      simp only [bind, Except.bind]
      cases Diagonal.reshapeDiagonal (castT vals) ax li.shape.length with
      | error e => rfl
      | ok d =>
        simp only [Diagonal.reshapeLeaf]
        rw [zipBroadcast_smul]
        cases Tensor.zipBroadcast (· * ·) d ⟨li.shape ++ List.replicate (Diagonal.rightDims ax li.shape.length) 1, x⟩ with
        | none => rfl
        | some y =>
          simp only [Option.map_some]
          split <;> rfl

/-! ### Stokes kernels -/

/-- multiplication of a Stokes sample by a real -/
def svs (a : ℝ) (s : SV ℝ) : SV ℝ := ⟨a * s.i, a * s.q, a * s.u, a * s.v⟩

/-- a sample-wise map commuting with multiplication by a scalar -/
def SVHom (g : SV ℝ → SV ℝ) : Prop := ∀ (a : ℝ) s, g (svs a s) = svs a (g s)

theorem present_svs (k : StokesKind) (a : ℝ) (s : SV ℝ) :
    SV.present k (svs a s) = (SV.present k s).map fun v => a * v := by
  cases k <;> rfl

theorem ofPresent_smul (k : StokesKind) (a : ℝ) (l : V) :
    SV.ofPresent k (l.map fun v => a * v) 0 = svs a (SV.ofPresent k l 0) := by
  cases k <;> rcases l with _ | ⟨x1, _ | ⟨x2, _ | ⟨x3, _ | ⟨x4, _ | ⟨x5, l⟩⟩⟩⟩⟩ <;>
    simp [SV.ofPresent, svs]

theorem hwp_hom : SVHom SV.hwp := fun a s => by
  simp only [SV.hwp, svs, SV.mk.injEq, true_and]; constructor <;> ring

theorem rot_hom (c s' : ℝ) : SVHom (SV.rot c s') := fun a s => by
  simp only [SV.rot, svs, SV.mk.injEq, true_and, and_true]; constructor <;> ring

theorem rotT_hom (c s' : ℝ) : SVHom (SV.rotT c s') := fun a s => by
  simp only [SV.rotT, svs, SV.mk.injEq, true_and, and_true]; constructor <;> ring

theorem comps_getD_smul (ns : List Nat) (a : ℝ) (x : V) (t : Nat) :
    (chunks ns (x.map fun v => a * v)).map (fun c => c.getD t 0) =
      ((chunks ns x).map fun c => c.getD t 0).map fun v => a * v := by
  rw [chunks_smul, List.map_map, List.map_map]
  apply List.map_congr_left
  intro c _
  simp only [Function.comp, getD_smul]

theorem stokesMap_smul (k : StokesKind) (n : Nat) (g : Nat → SV ℝ → SV ℝ) (hg : ∀ t, SVHom (g t)) :
    Hom (stokesMap k n g) := fun a x => by
  unfold stokesMap
  simp only [List.map_flatten, List.map_map]
  congr 1
  apply List.map_congr_left
  intro c _
  simp only [Function.comp, List.map_map]
  apply List.map_congr_left
  intro t _
  simp only [Function.comp]
  rw [comps_getD_smul, ofPresent_smul, hg, present_svs, getD_smul]

theorem pol_svs (k : StokesKind) (a : ℝ) (s : SV ℝ) :
    SV.pol (1 / 2 : ℝ) k (svs a s) = a * SV.pol (1 / 2 : ℝ) k s := by
  cases k <;> simp only [SV.pol, svs] <;> ring

theorem polMap_smul (k : StokesKind) (n : Nat) : Hom (polMap k n) := fun a x => by
  unfold polMap
  simp only [List.map_map]
  apply List.map_congr_left
  intro t _
  simp only [Function.comp]
  rw [comps_getD_smul, ofPresent_smul, pol_svs]

theorem polTMap_smul (k : StokesKind) (n : Nat) : Hom (polTMap k n) := fun a y => by
  unfold polTMap
  simp only [List.map_flatten, List.map_map]
  congr 1
  apply List.map_congr_left
  intro c _
  simp only [Function.comp, List.map_map]
  apply List.map_congr_left
  intro t _
  simp only [Function.comp]
  rw [getD_smul, ← getD_smul a (SV.present k _) c, ← present_svs]
  congr 2
  simp only [svs, SV.mk.injEq, mul_zero, and_true]
  constructor <;> ring

/-! ### the leaves -/

theorem vsmul_smul (q : Rat) : Hom (vsmul q) := fun a x => by
  unfold vsmul
  simp only [List.map_map]
  apply List.map_congr_left
  intro v _
  simp only [Function.comp]
  ring

theorem Hom.comp {f g : V → V} (hf : Hom f) (hg : Hom g) : Hom (fun x => f (g x)) := fun a x => by
  simp only [hg a x, hf a]

theorem Hom.id : Hom (fun x => x) := fun _ _ => rfl

theorem leafDen_smul (E : Env) (u : Nat) (c : LeafCls) (p : Params) : Hom (leafDen E u c p) := fun a x => by
  unfold leafDen
  simp only []
  rw [fit_smul p.inS.size a x]
  generalize fit p.inS.size x = xi
  refine Eq.trans ?_ (fit_smul _ a _)
  congr 1
  cases c <;> simp only []
  case homothety => exact vsmul_smul _ a xi
  case diagonal => exact perLeaf_smul _ (diagLeaf_smul _ _ _) _ _ a xi
  case broadcastDiagonal => exact perLeaf_smul _ (diagLeaf_smul _ _ _) _ _ a xi
  case index => exact perLeaf_smul _ (gatherLeaf_smul _) _ _ a xi
  case pack => exact perLeaf_smul _ (gatherLeaf_smul _) _ _ a xi
  case moveAxis => exact perLeaf_smul _ (moveLeaf_smul _ _) _ _ a xi
  case qurot =>
    split
    · exact stokesMap_smul _ _ _ (fun t => rot_hom _ _) a xi
    · rfl
  case hwp =>
    split
    · exact stokesMap_smul _ _ _ (fun _ => hwp_hom) a xi
    · rfl
  case polarizer =>
    split
    · exact polMap_smul _ _ a xi
    · rfl
  case toeplitz =>
    split
    · exact perLeaf_smul _ (fun li lo => toepLeaf_smul _ _ li lo) _ _ a xi
    · exact E.hom u a xi
  case dense =>
    split
    · exact denseLeaf_hom p a xi
    · exact E.hom u a xi
  all_goals exact E.hom u a xi

theorem leafDenT_smul (E : Env) (u : Nat) (c : LeafCls) (p : Params) : Hom (leafDenT E u c p) := fun a y => by
  unfold leafDenT
  simp only []
  rw [fit_smul _ a y]
  generalize fit (if squareLeaf c = true then p.inS else p.outS).size y = yi
  refine Eq.trans ?_ (fit_smul _ a _)
  congr 1
  cases c <;> simp only []
  case homothety => exact vsmul_smul _ a yi
  case diagonal => exact perLeaf_smul _ (diagLeaf_smul _ _ _) _ _ a yi
  case index => exact perLeaf_smul _ (scatterLeaf_smul _) _ _ a yi
  case pack => exact perLeaf_smul _ (scatterLeaf_smul _) _ _ a yi
  case moveAxis => exact perLeaf_smul _ (moveLeaf_smul _ _) _ _ a yi
  case qurot =>
    split
    · exact stokesMap_smul _ _ _ (fun t => rotT_hom _ _) a yi
    · rfl
  case hwp =>
    split
    · exact stokesMap_smul _ _ _ (fun _ => hwp_hom) a yi
    · rfl
  case polarizer =>
    split
    · exact polTMap_smul _ _ a yi
    · rfl
  case toeplitz =>
    split
    · exact perLeaf_smul _ (fun li lo => toepLeaf_smul _ _ li lo) _ _ a yi
    · exact E.homT u a yi
  case dense =>
    split
    · exact denseLeafT_hom p a yi
    · exact E.homT u a yi
  all_goals exact E.homT u a yi

/-- the leaf kernels commute with multiplication by a scalar, for every input list -/
theorem leafHom (E : Env) : LeafHom E :=
  ⟨fun u c p a x => leafDen_smul E u c p a x, fun u c p a y => leafDenT_smul E u c p a y⟩

/- (the leaf part of the length law, `leafDen_length` / `leafDenT_length`, is in FuraxProofs/Sem/ListSemBasic.lean) -/

end ListSem
end Furax

open Furax Furax.ListSem in
#print axioms leafHom
