/-
Leaf-level laws of the list denotation (FuraxProofs/Sem/ListSem.lean): move-axis, ravel/reshape, pack, index.

* validity predicates `moveAxisOK`, `reshapeOK`, `indexOK`, `packOK`: what the Python constructors guarantee of the
  parameters of these leaf classes;
* the laws `moveaxis_pair`, `reshape_pair`, `pack_pair`, `index_pair` (fields of `RuleLaws`) and `index_noaxes`,
  `reshape_id` (fields of `ContainerLaws`), for `A.den := den E`, `A.mem s x := x.length = s.size`.
-/
import FuraxProofs.Sem.ListSemLaws
import FuraxProofs.Lemmas.MoveAxisPerm
import FuraxProofs.Lemmas.GatherScatter
import Mathlib.Data.List.TakeDrop
namespace Furax
namespace ListSem
open Op

/-! ### `fit`, `headChunk`, `perLeaf` -/

private theorem fit_of_length {n : Nat} {x : V} (h : x.length = n) : fit n x = x := by
  unfold fit
  rw [List.takeD_eq_take 0 (by omega), List.take_of_length_le (by omega)]

private theorem fit_length (n : Nat) (x : V) : (fit n x).length = n := List.takeD_length _ _ _

private theorem headChunk_append {n : Nat} {a b : V} (h : a.length = n) : headChunk n (a ++ b) = a := by
  unfold headChunk
  rw [List.take_left' h, fit_of_length h]

private theorem perLeaf_nil (f : LeafS → LeafS → V → V) (x : V) : perLeaf f [] [] x = [] := by
  simp [perLeaf]

private theorem perLeaf_cons (f : LeafS → LeafS → V → V) (li lo : LeafS) (ins outs : List LeafS) (x : V) :
    perLeaf f (li :: ins) (lo :: outs) x =
      fit lo.size (f li lo (headChunk li.size x)) ++ perLeaf f ins outs (x.drop li.size) := by
  simp [perLeaf, chunks]

/-- two leaf-wise maps that undo each other leaf by leaf undo each other -/
theorem perLeaf_pair (R : LeafS → LeafS → Prop) (f g : LeafS → LeafS → V → V) (ins outs : List LeafS)
    (h : List.Forall₂ R ins outs)
    (hR : ∀ li lo, R li lo → ∀ c : V, c.length = li.size →
      fit li.size (g lo li (fit lo.size (f li lo c))) = c) :
    ∀ x : V, x.length = (ins.map LeafS.size).sum → perLeaf g outs ins (perLeaf f ins outs x) = x := by
  induction h with
  | nil => intro x hx; simp at hx; simp [perLeaf_nil, hx]
  | @cons li lo ins outs hr _ ih =>
    intro x hx
    simp only [List.map_cons, List.sum_cons] at hx
    rw [perLeaf_cons f, perLeaf_cons g, headChunk_append (fit_length _ _),
      List.drop_left' (fit_length _ _), ih (x.drop li.size) (by simp; omega)]
    have hc : (headChunk li.size x).length = li.size := fit_length _ _
    rw [hR li lo hr _ hc]
    unfold headChunk
    rw [fit_of_length (by simp; omega), List.take_append_drop]

/-- a leaf-wise map that is the identity leaf by leaf is the identity -/
theorem perLeaf_id (R : LeafS → LeafS → Prop) (f : LeafS → LeafS → V → V) (ins outs : List LeafS)
    (h : List.Forall₂ R ins outs)
    (hR : ∀ li lo, R li lo → ∀ c : V, c.length = li.size → fit lo.size (f li lo c) = c) :
    ∀ x : V, x.length = (ins.map LeafS.size).sum → perLeaf f ins outs x = x := by
  induction h with
  | nil => intro x hx; simp at hx; simp [perLeaf_nil, hx]
  | @cons li lo ins outs hr _ ih =>
    intro x hx
    simp only [List.map_cons, List.sum_cons] at hx
    rw [perLeaf_cons f, ih (x.drop li.size) (by simp; omega)]
    have hc : (headChunk li.size x).length = li.size := fit_length _ _
    rw [hR li lo hr _ hc]
    unfold headChunk
    rw [fit_of_length (by simp; omega), List.take_append_drop]

private theorem perLeaf_length (f : LeafS → LeafS → V → V) (ins outs : List LeafS) (hl : ins.length = outs.length) (x : V) :
    (perLeaf f ins outs x).length = (outs.map LeafS.size).sum := by
  induction ins generalizing outs x with
  | nil => cases outs with
    | nil => simp [perLeaf_nil]
    | cons _ _ => simp at hl
  | cons li ins ih => cases outs with
    | nil => simp at hl
    | cons lo outs =>
      rw [perLeaf_cons, List.length_append, fit_length, ih outs (by simpa using hl)]
      simp

/-- leaf lists related leaf by leaf by a relation that preserves sizes have the same total size -/
theorem sum_size_of_forall₂ (R : LeafS → LeafS → Prop) (ins outs : List LeafS) (h : List.Forall₂ R ins outs)
    (hR : ∀ li lo, R li lo → lo.size = li.size) :
    (outs.map LeafS.size).sum = (ins.map LeafS.size).sum := by
  induction h with
  | nil => rfl
  | cons hr _ ih => simp [hR _ _ hr, ih]

/-! ### validity of the parameters -/

/-- `MoveAxisOperator(source, destination, in_structure=…)`: `out_structure` is the tree-map of `jnp.moveaxis` over
the leaves (`jax.eval_shape`): same treedef, and every leaf is accepted by `moveaxis` and transposed -/
def moveAxisOK (p : Params) : Prop :=
  p.outS.td = p.inS.td ∧
  List.Forall₂ (fun li lo => ∃ order,
      Axes.moveaxisOrder li.shape.length (p.ints.getD 0 []) (p.ints.getD 1 []) = .ok order ∧
      lo.shape = Axes.transposeShape li.shape order ∧ lo.dtype = li.dtype)
    p.inS.leaves p.outS.leaves

/-- `RavelOperator` / `ReshapeOperator`: leaf-wise `reshape`, which keeps the number of elements -/
def reshapeOK (p : Params) : Prop :=
  p.outS.td = p.inS.td ∧ List.Forall₂ (fun li lo => lo.size = li.size) p.inS.leaves p.outS.leaves

/-- one leaf of an index operator: NumPy indexing of the input leaf succeeds and gives the output leaf, selecting
in-bounds positions; `uniq` (the `unique_indices` flag) promises that no position is selected twice -/
def indexLeafOK (idx : List IdxEntry) (uniq : Prop) (li lo : LeafS) : Prop :=
  ∃ pos, Index.indexPositions li.shape idx = .ok (lo.shape, pos) ∧ (∀ q ∈ pos, q < li.size) ∧
    (uniq → pos.Nodup) ∧ lo.dtype = li.dtype

/-- `IndexOperator(indices, in_structure=…, unique_indices=…)` -/
def indexOK (p : Params) : Prop :=
  p.outS.td = p.inS.td ∧ List.Forall₂ (indexLeafOK p.idx (p.flag = true)) p.inS.leaves p.outS.leaves

/-- `PackOperator(mask, in_structure=…)`: indexing with a boolean mask, which never selects a position twice -/
def packOK (p : Params) : Prop :=
  p.outS.td = p.inS.td ∧ List.Forall₂ (indexLeafOK p.idx True) p.inS.leaves p.outS.leaves

/-! ### two leaf-wise operators, with the length normalisations of `leafDen` / `leafDenT` -/

theorem leaf_pair_aux (s t : Struct) (R : LeafS → LeafS → Prop) (f g : LeafS → LeafS → V → V)
    (h : List.Forall₂ R s.leaves t.leaves)
    (hR : ∀ li lo, R li lo → ∀ c : V, c.length = li.size →
      fit li.size (g lo li (fit lo.size (f li lo c))) = c)
    (x : V) (hx : x.length = s.size) :
    fit s.size (perLeaf g t.leaves s.leaves (fit t.size (fit t.size
      (perLeaf f s.leaves t.leaves (fit s.size x))))) = x := by
  have hl : s.leaves.length = t.leaves.length := h.length_eq
  have h1 : (perLeaf f s.leaves t.leaves x).length = t.size := perLeaf_length f _ _ hl x
  rw [fit_of_length hx, fit_of_length h1, fit_of_length h1, perLeaf_pair R f g _ _ h hR x hx, fit_of_length hx]

theorem leaf_id_aux (s t : Struct) (R : LeafS → LeafS → Prop) (f : LeafS → LeafS → V → V)
    (h : List.Forall₂ R s.leaves t.leaves)
    (hR : ∀ li lo, R li lo → ∀ c : V, c.length = li.size → fit lo.size (f li lo c) = c)
    (hst : t.size = s.size) (x : V) (hx : x.length = s.size) :
    fit t.size (perLeaf f s.leaves t.leaves (fit s.size x)) = x := by
  rw [fit_of_length hx, perLeaf_id R f _ _ h hR x hx, fit_of_length (hx.trans hst.symm)]

/-! ### move-axis -/

theorem moveLeaf_roundtrip (src dst : List Int) (li lo : LeafS) (order : List Nat)
    (ho : Axes.moveaxisOrder li.shape.length src dst = .ok order)
    (hs : lo.shape = Axes.transposeShape li.shape order) (c : V) (hc : c.length = li.size) :
    fit li.size (moveLeaf dst src lo li (fit lo.size (moveLeaf src dst li lo c))) = c := by
  have h1 : Axes.moveaxis (⟨li.shape, c⟩ : Tensor ℝ) src dst =
      .ok ⟨lo.shape, Axes.transposeData li.shape order c⟩ := by
    simp [Axes.moveaxis, ho, hs, bind, Except.bind, pure, Except.pure]
  have h2 := Axes.moveaxis_roundtrip _ _ src dst (by simpa [LeafS.size] using hc) h1
  have hlen : (Axes.transposeData li.shape order c).length = lo.size := by
    simp [Axes.transposeData, LeafS.size, hs]
  unfold moveLeaf
  rw [h1]
  simp only [exData]
  rw [fit_of_length hlen, h2]
  exact fit_of_length hc

/-- relating three leaf lists: the third is the first when the relations undo each other -/
theorem forall₂_roundtrip {α β : Type} (R : α → β → Prop) (S : β → α → Prop) (a c : List α) (b : List β)
    (h1 : List.Forall₂ R a b) (h2 : List.Forall₂ S b c) (h : ∀ x y z, R x y → S y z → z = x) : c = a := by
  induction h1 generalizing c with
  | nil => cases h2; rfl
  | cons hr _ ih =>
    cases h2 with
    | cons hs hrest => rw [h _ _ _ hr hs, ih _ hrest]

/-- **`MoveAxisInverseRule`** (`RuleLaws.moveaxis_pair`) -/
theorem moveaxis_pair (E : Env) (ul : Nat) (pl : Params) (ur : Nat) (pr : Params)
    (hl : moveAxisOK pl) (hr : moveAxisOK pr)
    (h01 : pl.ints.getD 0 [] = pr.ints.getD 1 []) (h10 : pl.ints.getD 1 [] = pr.ints.getD 0 [])
    (hio : pl.inS = pr.outS) :
    pl.outS = pr.inS ∧
    ∀ x : V, x.length = pr.inS.size →
      den E (.leaf ul .moveAxis pl) (den E (.leaf ur .moveAxis pr) x) = x := by
  have hstruct : pl.outS = pr.inS := by
    obtain ⟨htl, hfl⟩ := hl
    obtain ⟨htr, hfr⟩ := hr
    rw [hio, h01, h10] at hfl
    have hleaves : pl.outS.leaves = pr.inS.leaves := by
      refine forall₂_roundtrip _ _ _ _ _ hfr hfl ?_
      rintro x y z ⟨o, ho, hys, hyd⟩ ⟨o', ho', hzs, hzd⟩
      have hlen : y.shape.length = x.shape.length := by
        rw [hys, Axes.ma_transposeShape_length]
        simpa using (Axes.moveaxisOrder_perm _ _ _ _ ho).length_eq
      rw [hlen] at ho'
      have := Axes.moveaxis_inverse_shape _ _ _ o o' x.shape ho ho' rfl
      rw [← hys, ← hzs] at this
      cases x; cases z
      simp only [LeafS.mk.injEq]
      exact ⟨this, hzd.trans hyd⟩
    have htd : pl.outS.td = pr.inS.td := by rw [htl, hio, htr]
    cases hA : pl.outS; cases hB : pr.inS
    rw [hA] at hleaves htd; rw [hB] at hleaves htd
    simp only at hleaves htd
    rw [hleaves, htd]
  refine ⟨hstruct, fun x hx => ?_⟩
  simp only [den, leafDen, squareLeaf, Bool.false_eq_true, if_false]
  rw [hio, hstruct, h01, h10]
  refine leaf_pair_aux pr.inS pr.outS _ _ _ hr.2 ?_ x hx
  rintro li lo ⟨o, ho, hs, _⟩ c hc
  exact moveLeaf_roundtrip _ _ li lo o ho hs c hc

/-! ### ravel / reshape -/

theorem reshapeOK_size {p : Params} (h : reshapeOK p) : p.outS.size = p.inS.size :=
  sum_size_of_forall₂ _ _ _ h.2 (fun _ _ h => h)

/-- **`ReshapeInverseRule`** (`RuleLaws.reshape_pair`) -/
theorem reshape_pair (E : Env) (u uo : Nat) (c : LeafCls) (p : Params) (hc : c = .ravel ∨ c = .reshape)
    (hp : reshapeOK p) :
    (∀ x : V, x.length = p.inS.size →
      den E (.wrap u .reshapeT (.leaf uo c p)) (den E (.leaf uo c p) x) = x) ∧
    (∀ x : V, x.length = p.outS.size →
      den E (.leaf uo c p) (den E (.wrap u .reshapeT (.leaf uo c p)) x) = x) := by
  have hs := reshapeOK_size hp
  constructor
  · intro x hx
    rcases hc with rfl | rfl <;>
      simp only [den, denT, leafDen, leafDenT, squareLeaf, Bool.false_eq_true, if_false, hs,
        fit_of_length hx]
  · intro x hx
    rw [hs] at hx
    rcases hc with rfl | rfl <;>
      simp only [den, denT, leafDen, leafDenT, squareLeaf, Bool.false_eq_true, if_false, hs,
        fit_of_length hx]

/-- **`AbstractRavelOrReshapeOperator.reduce`** (`ContainerLaws.reshape_id`); the validity of the parameters is not
needed -/
theorem reshape_id (E : Env) (u : Nat) (c : LeafCls) (p : Params) (hc : c = .ravel ∨ c = .reshape)
    (hio : p.outS = p.inS) :
    ∀ x : V, x.length = p.inS.size → den E (.leaf u c p) x = x := by
  intro x hx
  rcases hc with rfl | rfl <;>
    simp only [den, leafDen, squareLeaf, Bool.false_eq_true, if_false, hio, fit_of_length hx]

/-! ### index / pack -/

theorem except_mapM_length {α β : Type} (f : α → Except PyErr β) :
    ∀ (l : List α) (r : List β), l.mapM f = .ok r → r.length = l.length := by
  intro l
  induction l with
  | nil => intro r h; simp [pure, Except.pure] at h; simp [h]
  | cons a l ih =>
    intro r h
    rw [List.mapM_cons] at h
    cases hf : f a with
    | error e => simp [hf, bind, Except.bind] at h
    | ok b =>
      cases hl : l.mapM f with
      | error e => simp [hf, hl, bind, Except.bind] at h
      | ok bs =>
        simp [hf, hl, bind, Except.bind, pure, Except.pure] at h
        subst h
        simp [ih bs hl]

/-- the position map has one entry per element of the result -/
theorem indexPositions_length {shape : List Nat} {idx : List IdxEntry} {outShape pos : List Nat}
    (h : Index.indexPositions shape idx = .ok (outShape, pos)) : pos.length = prodNat outShape := by
  unfold Index.indexPositions at h
  cases hs : Index.toSels shape idx with
  | error e => simp [hs, bind, Except.bind] at h
  | ok sels =>
    simp only [hs, bind, Except.bind] at h
    split at h
    · exact absurd h (by simp)
    · split at h
      · exact absurd h (by simp)
      · rename_i positions hm
        simp only [pure, Except.pure, Except.ok.injEq, Prod.mk.injEq] at h
        obtain ⟨rfl, rfl⟩ := h
        rw [except_mapM_length _ _ _ hm, List.length_range]

theorem gatherLeaf_scatterLeaf (idx : List IdxEntry) (li lo : LeafS) (h : indexLeafOK idx True li lo)
    (c : V) (hc : c.length = lo.size) :
    fit lo.size (gatherLeaf idx li lo (fit li.size (scatterLeaf idx lo li c))) = c := by
  obtain ⟨pos, hp, hlt, hnd, _⟩ := h
  have hlen := indexPositions_length hp
  unfold gatherLeaf scatterLeaf
  simp only [hp]
  rw [fit_of_length (Index.scatterAdd_length _ _ _),
    Index.gather_scatter_id _ _ _ (hnd trivial) hlt (by rw [hc, hlen]; rfl), fit_of_length hc]

theorem forall₂_flip' {α β : Type} {R : α → β → Prop} {a : List α} {b : List β} (h : List.Forall₂ R a b) :
    List.Forall₂ (fun y x => R x y) b a := by
  induction h with
  | nil => exact .nil
  | cons hr _ ih => exact .cons hr ih

/-- `P Pᵀ = I` for an index or pack leaf whose positions are distinct -/
theorem gather_scatter_den (E : Env) (u uo : Nat) (c : LeafCls) (p : Params) (hc : c = .index ∨ c = .pack)
    (hp : List.Forall₂ (indexLeafOK p.idx True) p.inS.leaves p.outS.leaves) :
    ∀ x : V, x.length = p.outS.size →
      den E (.leaf uo c p) (den E (.wrap u .transpose (.leaf uo c p)) x) = x := by
  intro x hx
  have key := leaf_pair_aux p.outS p.inS (fun lo li => indexLeafOK p.idx True li lo)
    (scatterLeaf p.idx) (gatherLeaf p.idx) (forall₂_flip' hp)
    (fun lo li h c hc => gatherLeaf_scatterLeaf p.idx li lo h c hc) x hx
  rcases hc with rfl | rfl <;>
    simp only [den, denT, leafDen, leafDenT, squareLeaf, Bool.false_eq_true, if_false] <;>
    exact key

/-- **`PackUnpackRule`** (`RuleLaws.pack_pair`) -/
theorem pack_pair (E : Env) (u uo : Nat) (p : Params) (hp : packOK p) :
    ∀ x : V, x.length = p.outS.size →
      den E (.leaf uo .pack p) (den E (.wrap u .transpose (.leaf uo .pack p)) x) = x :=
  gather_scatter_den E u uo .pack p (Or.inr rfl) hp.2

/-- **`IndexTransposeRule`** (`RuleLaws.index_pair`) -/
theorem index_pair (E : Env) (u uo : Nat) (p : Params) (hp : indexOK p) (hflag : p.flag = true) :
    ∀ x : V, x.length = p.outS.size →
      den E (.leaf uo .index p) (den E (.wrap u .transpose (.leaf uo .index p)) x) = x := by
  refine gather_scatter_den E u uo .index p (Or.inl rfl) ?_
  refine hp.2.imp ?_
  rintro li lo ⟨pos, h1, h2, h3, h4⟩
  exact ⟨pos, h1, h2, fun _ => h3 hflag, h4⟩

/-! ### an index operator that indexes no axis -/

/-- `slice(None)` -/
abbrev fullSlice : IdxEntry := .slice none none none

theorem isFullSlice_iff (e : IdxEntry) : e.isFullSlice = true ↔ e = fullSlice := by
  cases e with
  | slice a b c => cases a <;> cases b <;> cases c <;> simp [IdxEntry.isFullSlice, fullSlice]
  | _ => simp [IdxEntry.isFullSlice, fullSlice]

/-- no indexed axis: only full slices, and at most one ellipsis -/
theorem noaxes_form (idx : List IdxEntry) (h : (indexedAxes idx).length = 0) :
    ∃ a b, idx = List.replicate a fullSlice ∨
      idx = List.replicate a fullSlice ++ IdxEntry.ellipsis :: List.replicate b fullSlice := by
  unfold indexedAxes at h
  simp only [List.length_append, List.length_map, Nat.add_eq_zero_iff, List.length_eq_zero_iff,
    List.filter_eq_nil_iff, List.mem_range] at h
  obtain ⟨hb, ha⟩ := h
  have hget : ∀ i (hi : i < idx.length), idx.getD i IdxEntry.ellipsis = idx[i] := fun i hi =>
    List.getD_eq_getElem _ _ hi
  by_cases he : idx.idxOf IdxEntry.ellipsis < idx.length
  · refine ⟨idx.idxOf IdxEntry.ellipsis, idx.length - (idx.idxOf IdxEntry.ellipsis + 1), Or.inr ?_⟩
    apply List.ext_getElem
    · simp; omega
    · intro i h1 h2
      rcases Nat.lt_trichotomy i (idx.idxOf IdxEntry.ellipsis) with hlt | heq | hgt
      · have := hb i (by omega)
        rw [hget i h1] at this
        rw [List.getElem_append_left (by simpa using hlt), List.getElem_replicate]
        simpa [isFullSlice_iff] using this
      · subst heq
        rw [List.getElem_append_right (by simp)]
        simp [List.getElem_idxOf he]
      · have := ha i h1
        rw [hget i h1] at this
        rw [List.getElem_append_right (by simp; omega)]
        have h3 : i - (List.replicate (idx.idxOf IdxEntry.ellipsis) fullSlice).length =
            (i - idx.idxOf IdxEntry.ellipsis - 1) + 1 := by simp; omega
        simp only [h3, List.getElem_cons_succ, List.getElem_replicate]
        simpa [isFullSlice_iff, hgt] using this
  · refine ⟨idx.length, 0, Or.inl ?_⟩
    apply List.ext_getElem
    · simp
    · intro i h1 h2
      have := hb i (by omega)
      rw [hget i h1] at this
      rw [List.getElem_replicate]
      simpa [isFullSlice_iff] using this

private theorem pyRange_up : ∀ (fuel a n : Nat), n ≤ a + fuel →
    Index.pyRange (a : Int) (n : Int) 1 fuel = List.range' a (n - a) := by
  intro fuel
  induction fuel with
  | zero =>
    intro a n h
    have : n - a = 0 := by omega
    simp [Index.pyRange, this]
  | succ f ih =>
    intro a n h
    unfold Index.pyRange
    by_cases hlt : a < n
    · have h' : (a : Int) < n := by exact_mod_cast hlt
      have h1 : (a : Int) + 1 = ((a + 1 : Nat) : Int) := by push_cast; rfl
      have h2 : n - a = (n - (a + 1)) + 1 := by omega
      simp only [h', h1, ih (a + 1) n (by omega), h2, List.range'_succ]
      simp
    · have h' : ¬ (a : Int) < n := by exact_mod_cast hlt
      have : n - a = 0 := by omega
      simp [h', this]

private theorem sliceIndices_full (len : Nat) : Index.sliceIndices none none none len = .ok (List.range len) := by
  have := pyRange_up (len + 1) 0 len (by omega)
  simp only [Nat.cast_zero, Nat.sub_zero] at this
  simp [Index.sliceIndices, this, List.range_eq_range']

/-- full-slice selectors for the dimensions `dim … dim+m-1` -/
def selsFrom (shape : List Nat) (dim m : Nat) : List Index.Sel :=
  (List.range m).map fun k => Index.Sel.slice (List.range (shape.getD (dim + k) 0))

theorem selsFrom_succ (shape : List Nat) (dim m : Nat) :
    selsFrom shape dim (m + 1) =
      Index.Sel.slice (List.range (shape.getD dim 0)) :: selsFrom shape (dim + 1) m := by
  simp [selsFrom, List.range_succ_eq_map, Function.comp_def, Nat.add_assoc, Nat.add_comm 1]

theorem selsFrom_append (shape : List Nat) (d m k : Nat) :
    selsFrom shape d m ++ selsFrom shape (d + m) k = selsFrom shape d (m + k) := by
  simp [selsFrom, List.range_add, Nat.add_assoc, Function.comp_def]

theorem go_full (shape : List Nat) (fill : Nat) (rest : List IdxEntry) :
    ∀ (a dim : Nat) (acc : List Index.Sel),
      Index.toSels.go shape fill (List.replicate a fullSlice ++ rest) dim acc =
        Index.toSels.go shape fill rest (dim + a) ((selsFrom shape dim a).reverse ++ acc) := by
  intro a
  induction a with
  | zero => intro dim acc; simp [selsFrom]
  | succ a ih =>
    intro dim acc
    rw [List.replicate_succ, List.cons_append]
    simp only [Index.toSels.go, sliceIndices_full]
    rw [ih (dim + 1) _, selsFrom_succ]
    simp [Nat.add_assoc, Nat.add_comm 1]

theorem go_ell (shape : List Nat) (fill : Nat) (rest : List IdxEntry) (dim : Nat) (acc : List Index.Sel) :
    Index.toSels.go shape fill (IdxEntry.ellipsis :: rest) dim acc =
      Index.toSels.go shape fill rest (dim + fill) ((selsFrom shape dim fill).reverse ++ acc) := by
  simp only [Index.toSels.go, selsFrom]

theorem go_noaxes (shape : List Nat) (a b : Nat) (h : a + b ≤ shape.length) :
    Index.toSels.go shape (shape.length - (a + b))
      (List.replicate a fullSlice ++ IdxEntry.ellipsis :: List.replicate b fullSlice) 0 [] =
      .ok (selsFrom shape 0 shape.length) := by
  have := go_full shape (shape.length - (a + b)) [] b
  simp only [List.append_nil] at this
  rw [go_full, go_ell, this]
  simp only [Index.toSels.go, List.reverse_append, List.reverse_reverse, List.append_nil, Nat.zero_add]
  rw [List.append_assoc, selsFrom_append]
  have h2 := selsFrom_append shape 0 a (shape.length - (a + b) + b)
  simp only [Nat.zero_add] at h2
  rw [h2]
  congr 2
  omega

theorem toSels_noaxes (shape : List Nat) (idx : List IdxEntry) (a b : Nat)
    (h : idx = List.replicate a fullSlice ∧ b = 0 ∨
      idx = List.replicate a fullSlice ++ IdxEntry.ellipsis :: List.replicate b fullSlice) :
    Index.toSels shape idx =
      if a + b > shape.length then .error .indexError else .ok (selsFrom shape 0 shape.length) := by
  have hbeq : (fullSlice == IdxEntry.ellipsis) = false := by decide
  rcases h with ⟨rfl, rfl⟩ | rfl
  · unfold Index.toSels
    simp [hbeq, Index.consumed]
    split
    · rfl
    · have := go_noaxes shape a 0 (by omega)
      simpa using this
  · unfold Index.toSels
    simp [hbeq, Index.consumed]
    split
    · rfl
    · exact go_noaxes shape a b (by omega)

theorem selsFrom_any (shape : List Nat) (d m : Nat) (p : Index.Sel → Bool) :
    (selsFrom shape d m).any p =
      (List.range m).any fun k => p (.slice (List.range (shape.getD (d + k) 0))) := by
  simp [selsFrom, List.any_map, Function.comp_def]

theorem selsFrom_filterMap {β : Type} (shape : List Nat) (d m : Nat) (f : Index.Sel → Option β) :
    (selsFrom shape d m).filterMap f =
      (List.range m).filterMap fun k => f (.slice (List.range (shape.getD (d + k) 0))) := by
  simp [selsFrom, List.filterMap_map]

theorem any_const_false {α : Type} (l : List α) : (l.any fun _ => false) = false := by
  induction l <;> simp_all

theorem filterMap_const_none {α β : Type} (l : List α) : (l.filterMap fun _ => (none : Option β)) = [] := by
  induction l <;> simp_all

theorem selsFrom_length (shape : List Nat) (d m : Nat) : (selsFrom shape d m).length = m := by
  simp [selsFrom]

theorem selsFrom_getD (shape : List Nat) (d m k : Nat) (hk : k < m) :
    (selsFrom shape d m).getD k (Index.Sel.int 0) = .slice (List.range (shape.getD (d + k) 0)) := by
  rw [List.getD_eq_getElem _ _ (by simpa [selsFrom] using hk)]
  simp [selsFrom]

private theorem except_mapM_ok {α β : Type} (f : α → Except PyErr β) (g : α → β) :
    ∀ l : List α, (∀ x ∈ l, f x = .ok (g x)) → l.mapM f = .ok (l.map g) := by
  intro l
  induction l with
  | nil => intro _; rfl
  | cons a l ih =>
    intro h
    rw [List.mapM_cons, h a (by simp), ih (fun x hx => h x (by simp [hx]))]
    rfl

private theorem filterMap_eq_map_of {α β : Type} (f : α → Option β) (g : α → β) (l : List α)
    (h : ∀ x ∈ l, f x = some (g x)) : l.filterMap f = l.map g := by
  induction l with
  | nil => rfl
  | cons a l ih =>
    rw [List.filterMap_cons, h a (by simp), List.map_cons, ih (fun x hx => h x (by simp [hx]))]

theorem descs_find (n e : Nat) (he : e < n) (D : List (Option Nat × Nat))
    (hD : ∀ j < n, (D.getD j (none, 0)).1 = some j) :
    (List.range n).find? (fun x => (D.getD x (none, 0)).1 == some e) = some e := by
  rw [List.find?_range_eq_some]
  refine ⟨by rw [hD e he]; exact beq_self_eq_true _, by simpa using he, ?_⟩
  intro j hj
  simp only [hD j (by omega), Bool.not_eq_true', beq_eq_false_iff_ne, ne_eq, Option.some.injEq]
  omega

theorem indexPositions_of_sels (shape : List Nat) (idx : List IdxEntry)
    (hs : Index.toSels shape idx = .ok (selsFrom shape 0 shape.length)) :
    Index.indexPositions shape idx = .ok (shape, List.range (prodNat shape)) := by
  unfold Index.indexPositions
  simp only [hs, bind, Except.bind, selsFrom_any, selsFrom_filterMap, selsFrom_length, any_const_false,
    filterMap_const_none, Bool.not_false, if_true, Bool.false_eq_true, if_false,
    List.foldlM_nil, pure, Except.pure]
  generalize hD : List.filterMap (fun k =>
      match (selsFrom shape 0 shape.length).getD k (Index.Sel.int 0) with
      | Index.Sel.slice l => some (k, l.length)
      | x => none) (List.range shape.length) = sd
  have hsd : sd = (List.range shape.length).map (fun k => (k, shape.getD k 0)) := by
    rw [← hD]
    apply filterMap_eq_map_of
    intro k hk
    rw [selsFrom_getD shape 0 _ k (by simpa using hk)]
    simp
  subst hsd
  have hshape : List.map (fun x : Option Nat × Nat => x.2) (List.map (fun p : Nat × Nat => (some p.1, p.2))
      (List.map (fun k => (k, shape.getD k 0)) (List.range shape.length))) = shape := by
    simp only [List.map_map, Function.comp_def]
    exact Axes.ma_map_getD_range shape
  simp only [hshape, List.length_map, List.length_range]
  rw [except_mapM_ok _ (fun k => k) (List.range (prodNat shape))]
  · simp
  · intro k hk
    have hk' : k < prodNat shape := by simpa using hk
    obtain ⟨v1, v2⟩ := Axes.ma_unravel_valid shape k hk'
    have hul := Axes.ma_unravel_length shape k
    rw [except_mapM_ok _ (fun e => (unravel shape k).getD e 0) (List.range shape.length)]
    · simp only []
      have : List.map (fun e => (unravel shape k).getD e 0) (List.range shape.length) = unravel shape k := by
        rw [← hul]; exact Axes.ma_map_getD_range _
      rw [this, v2]
    · intro e he
      have he' : e < shape.length := by simpa using he
      rw [selsFrom_getD shape 0 _ e he']
      simp only []
      rw [descs_find shape.length e he']
      · have hlt : (unravel shape k).getD e 0 < shape.getD e 0 := by
          rw [List.getD_eq_getElem _ _ (by omega), List.getD_eq_getElem _ _ he']
          have := v1.get (by omega : e < (unravel shape k).length) he'
          simpa using this
        simp only [Option.getD_some, Nat.zero_add]
        rw [List.getD_eq_getElem _ _ (by simpa using hlt)]
        simp
      · intro j hj
        rw [List.getD_eq_getElem _ _ (by simpa using hj)]
        simp

/-- an index expression made of full slices and at most one ellipsis selects everything, in order -/
theorem indexPositions_noaxes (shape : List Nat) (idx : List IdxEntry) (h : (indexedAxes idx).length = 0)
    (out : List Nat × List Nat) (hok : Index.indexPositions shape idx = .ok out) :
    out = (shape, List.range (prodNat shape)) := by
  obtain ⟨a, b, hform⟩ := noaxes_form idx h
  obtain ⟨b', hform'⟩ : ∃ b', idx = List.replicate a fullSlice ∧ b' = 0 ∨
      idx = List.replicate a fullSlice ++ IdxEntry.ellipsis :: List.replicate b' fullSlice := by
    rcases hform with h1 | h2
    · exact ⟨0, Or.inl ⟨h1, rfl⟩⟩
    · exact ⟨b, Or.inr h2⟩
  have hts := toSels_noaxes shape idx a b' hform'
  by_cases hgt : a + b' > shape.length
  · rw [if_pos hgt] at hts
    unfold Index.indexPositions at hok
    simp [hts, bind, Except.bind] at hok
  · rw [if_neg hgt] at hts
    rw [indexPositions_of_sels shape idx hts] at hok
    exact (Except.ok.inj hok).symm

theorem gather_range (n : Nat) (c : V) (hc : c.length = n) : Index.gather (List.range n) c = c := by
  unfold Index.gather
  apply List.ext_getElem
  · simp [hc]
  · intro i h1 h2
    simp only [List.getElem_map, List.getElem_range]
    exact List.getD_eq_getElem _ _ h2

theorem forall₂_eq_of {α : Type} (R : α → α → Prop) (a b : List α) (h : List.Forall₂ R a b)
    (hR : ∀ x y, R x y → y = x) : b = a := by
  induction h with
  | nil => rfl
  | cons hr _ ih => rw [hR _ _ hr, ih]

/-- **`IndexOperator.reduce`** (`ContainerLaws.index_noaxes`) -/
theorem index_noaxes (E : Env) (u : Nat) (p : Params) (hp : indexOK p)
    (h : (indexedAxes p.idx).length = 0) :
    p.outS = p.inS ∧ ∀ x : V, x.length = p.inS.size → den E (.leaf u .index p) x = x := by
  have hleaf : ∀ li lo, indexLeafOK p.idx (p.flag = true) li lo →
      lo = li ∧ Index.indexPositions li.shape p.idx = .ok (li.shape, List.range li.size) := by
    rintro li lo ⟨pos, hpos, _, _, hdt⟩
    have := indexPositions_noaxes li.shape p.idx h _ hpos
    simp only [Prod.mk.injEq] at this
    obtain ⟨hs, rfl⟩ := this
    refine ⟨?_, by rw [hpos, hs]; rfl⟩
    cases li; cases lo
    simp only [LeafS.mk.injEq]
    exact ⟨hs, hdt⟩
  have hstruct : p.outS = p.inS := by
    have hl : p.outS.leaves = p.inS.leaves :=
      forall₂_eq_of _ _ _ hp.2 (fun x y hxy => (hleaf x y hxy).1)
    have ht := hp.1
    cases hA : p.outS; cases hB : p.inS
    rw [hA, hB] at hl ht
    simp only at hl ht
    rw [hl, ht]
  refine ⟨hstruct, fun x hx => ?_⟩
  simp only [den, leafDen, squareLeaf, Bool.false_eq_true, if_false]
  refine leaf_id_aux p.inS p.outS _ (gatherLeaf p.idx) hp.2 ?_ (by rw [hstruct]) x hx
  intro li lo hlo c hc
  obtain ⟨rfl, hpos⟩ := hleaf li lo hlo
  unfold gatherLeaf
  simp only [hpos]
  rw [gather_range _ c hc, fit_of_length hc]

/-! ### the predicates are satisfiable -/

example : moveAxisOK {
    inS := ⟨[.leaf], [⟨[2, 3], .f64⟩]⟩, outS := ⟨[.leaf], [⟨[3, 2], .f64⟩]⟩,
    ints := [[0], [1]] } :=
  ⟨rfl, .cons ⟨[1, 0], by decide, rfl, rfl⟩ .nil⟩

example : reshapeOK { inS := ⟨[.leaf], [⟨[2, 3], .f64⟩]⟩, outS := ⟨[.leaf], [⟨[6], .f64⟩]⟩ } :=
  ⟨rfl, .cons rfl .nil⟩

example : indexOK {
    inS := ⟨[.leaf], [⟨[3], .f64⟩]⟩, outS := ⟨[.leaf], [⟨[2], .f64⟩]⟩,
    idx := [.iarr [2] [0, 2]], flag := true } :=
  ⟨rfl, .cons ⟨[0, 2], by decide, by decide, fun _ => by decide, rfl⟩ .nil⟩

/-- repeated positions are allowed when `unique_indices` is not promised -/
example : indexOK {
    inS := ⟨[.leaf], [⟨[3], .f64⟩]⟩, outS := ⟨[.leaf], [⟨[2], .f64⟩]⟩,
    idx := [.iarr [2] [1, 1]], flag := false } :=
  ⟨rfl, .cons ⟨[1, 1], by decide, by decide, fun h => by simp at h, rfl⟩ .nil⟩

example : packOK {
    inS := ⟨[.leaf], [⟨[3], .f64⟩]⟩, outS := ⟨[.leaf], [⟨[2], .f64⟩]⟩,
    idx := [.barr [3] [true, false, true]] } :=
  ⟨rfl, .cons ⟨[0, 2], by decide, by decide, fun _ => by decide, rfl⟩ .nil⟩

/-! ### the laws in the form of the fields of `RuleLaws` / `ContainerLaws` -/

/-- validity of the parameters of the leaf classes treated here (the other classes are not constrained) -/
def leafOK : LeafCls → Params → Prop
  | .moveAxis, p => moveAxisOK p
  | .ravel, p => reshapeOK p
  | .reshape, p => reshapeOK p
  | .index, p => indexOK p
  | .pack, p => packOK p
  | _, _ => True

theorem law_moveaxis_pair (E : Env) : ∀ ul pl ur pr, leafOK .moveAxis pl → leafOK .moveAxis pr →
    pl.ints.getD 0 [] = pr.ints.getD 1 [] → pl.ints.getD 1 [] = pr.ints.getD 0 [] → pl.inS = pr.outS →
    pl.outS = pr.inS ∧
    ∀ x, mem pr.inS x → den E (.leaf ul .moveAxis pl) (den E (.leaf ur .moveAxis pr) x) = x :=
  fun ul pl ur pr hl hr h01 h10 hio => moveaxis_pair E ul pl ur pr hl hr h01 h10 hio

theorem law_reshape_pair (E : Env) : ∀ u uo c p, (c = .ravel ∨ c = .reshape) → leafOK c p →
    (∀ x, mem p.inS x → den E (.wrap u .reshapeT (.leaf uo c p)) (den E (.leaf uo c p) x) = x) ∧
    (∀ x, mem p.outS x → den E (.leaf uo c p) (den E (.wrap u .reshapeT (.leaf uo c p)) x) = x) := by
  intro u uo c p hc hp
  refine reshape_pair E u uo c p hc ?_
  rcases hc with rfl | rfl <;> exact hp

theorem law_pack_pair (E : Env) : ∀ u uo p, leafOK .pack p → ∀ x, mem p.outS x →
    den E (.leaf uo .pack p) (den E (.wrap u .transpose (.leaf uo .pack p)) x) = x :=
  fun u uo p hp => pack_pair E u uo p hp

theorem law_index_pair (E : Env) : ∀ u uo p, leafOK .index p → p.flag = true → ∀ x, mem p.outS x →
    den E (.leaf uo .index p) (den E (.wrap u .transpose (.leaf uo .index p)) x) = x :=
  fun u uo p hp hf => index_pair E u uo p hp hf

theorem law_index_noaxes (E : Env) : ∀ u p, leafOK .index p → (indexedAxes p.idx).length = 0 →
    p.outS = p.inS ∧ ∀ x, mem p.inS x → den E (.leaf u .index p) x = x :=
  fun u p hp h => index_noaxes E u p hp h

theorem law_reshape_id (E : Env) : ∀ u c p, (c = .ravel ∨ c = .reshape) → leafOK c p → p.outS = p.inS →
    ∀ x, mem p.inS x → den E (.leaf u c p) x = x :=
  fun u c p hc _ hio => reshape_id E u c p hc hio

end ListSem
end Furax
