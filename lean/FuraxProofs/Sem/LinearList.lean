/-
Application is linear, and the dense matrix is faithful, closed, in the list denotation (property C04).

0.  (now in FuraxProofs/Sem/AddList.lean) `vadd` (the sum of flat vectors that pads the shorter one) against the plumbing: `vadd_eq_zipWith`,
    `getD_vadd`, `fit_vadd`, `drop_vadd`, `headChunk_vadd`, `vadd_append`, `perLeaf_vadd` …
    `Add f := ∀ x y, f (vadd x y) = vadd (f x) (f y)`: additivity on ALL inputs, of any lengths (on vectors of equal
    length `vadd` is `zipWith (· + ·)`).
1.  `EnvAdd E`: the maps of the environment (the uninterpreted leaf classes) are additive on vectors of equal length.
2.  leaf kernels: `moveLeaf_vadd`, `gatherLeaf_vadd`, `scatterLeaf_vadd`, `diagLeaf_vadd`, `stokesMap_vadd`,
    `polMap_vadd`, `polTMap_vadd`;  `leafDen_vadd`, `leafDenT_vadd` (every class, NO validity hypothesis), and the
    `zipWith` forms `leafDen_additive`, `leafDenT_additive`.
3.  `chooseInv_add`: the lazy inverse of an additive map is additive;  `addAt`: every operator (all constructors)
    is additive on all inputs — NO structural hypothesis;  `den_additive`, `denT_additive`.
4.  the bridge to Mathlib: `toLinearMapN E hE o n m`, `toLinearMap E hE o`, `den_ofFn`; `asMatrix`; the C04
    statements instantiated (`den_eq_asMatrix_mulVec`, `asMatrix_apply`, `asMatrix_faithful`, `asMatrix_comp`,
    `asMatrix_add`, `asMatrix_transpose`, `asMatrix_inverse` …).
5.  a concrete example.
-/
import FuraxProofs.Sem.AdjointList
import FuraxProofs.Props.C04
namespace Furax
namespace ListSem
open Op

/-! ### 1. the environment -/

/-- **the maps of the environment are additive on vectors of equal length** (the uninterpreted leaves —
dense einsum blocks with one block array per leaf, observation matrices, opaque operators, Toeplitz operators with a
rank-0 band array — are linear maps; they are homogeneous by `Env.hom`; Toeplitz leaves with a band array `bs ++ [K]`,
batched or not, are interpreted by the kernel, additive by `toepLeaf_vadd`; dense einsum leaves with a shared block
array are interpreted by the einsum kernel, additive by `denseLeaf_add`).  On the input side `vadd x y` is `zipWith (· + ·) x y` (equal lengths, `vadd_eq_zipWith`); on the output
side `vadd` is used because nothing is assumed of the lengths `E.f u` returns (when `E.f u x` and `E.f u y` have
the same length — e.g. for an environment of matrices, `matEnv_add` — it is `zipWith (· + ·)` again). -/
structure EnvAdd (E : Env) : Prop where
  add : ∀ u (x y : V), x.length = y.length → E.f u (vadd x y) = vadd (E.f u x) (E.f u y)
  addT : ∀ u (x y : V), x.length = y.length → E.fT u (vadd x y) = vadd (E.fT u x) (E.fT u y)

/-- the `zipWith` form, for environments whose maps return vectors of a length that depends on the length of the
input only -/
theorem EnvAdd.of_zipWith (E : Env)
    (hl : ∀ u (x y : V), x.length = y.length → (E.f u x).length = (E.f u y).length)
    (hlT : ∀ u (x y : V), x.length = y.length → (E.fT u x).length = (E.fT u y).length)
    (h : ∀ u (x y : V), x.length = y.length →
      E.f u (List.zipWith (· + ·) x y) = List.zipWith (· + ·) (E.f u x) (E.f u y))
    (hT : ∀ u (x y : V), x.length = y.length →
      E.fT u (List.zipWith (· + ·) x y) = List.zipWith (· + ·) (E.fT u x) (E.fT u y)) : EnvAdd E :=
  ⟨fun u x y hxy => by rw [vadd_eq_zipWith x y hxy, h u x y hxy, vadd_eq_zipWith _ _ (hl u x y hxy)],
   fun u x y hxy => by rw [vadd_eq_zipWith x y hxy, hT u x y hxy, vadd_eq_zipWith _ _ (hlT u x y hxy)]⟩

theorem idEnv_add : EnvAdd idEnv := ⟨fun _ _ _ _ => rfl, fun _ _ _ _ => rfl⟩

/-! ### 2. leaf kernels -/

/-! #### move-axis, gather, scatter -/

theorem transposeData_vadd (shape order : List Nat) : Add (Axes.transposeData shape order) := fun x y => by
  unfold Axes.transposeData
  simp only [getD_vadd']
  exact map_add_eq_vadd _ _ _

theorem moveLeaf_vadd (src dst : List Int) (li lo : LeafS) : Add (moveLeaf src dst li lo) := fun x y => by
  unfold moveLeaf Axes.moveaxis
  cases h : Axes.moveaxisOrder (List.length li.shape) src dst with
  | error e => simp [exData, bind, Except.bind]
  | ok order =>
    simp only [exData, bind, Except.bind, pure, Except.pure]
    exact transposeData_vadd _ _ x y

theorem gather_vadd (pos : List Nat) : Add (Index.gather pos) := fun x y => by
  unfold Index.gather
  simp only [getD_vadd']
  exact map_add_eq_vadd _ _ _

theorem gatherLeaf_vadd (idx : List IdxEntry) (li lo : LeafS) : Add (gatherLeaf idx li lo) := fun x y => by
  unfold gatherLeaf
  split
  · exact gather_vadd _ x y
  · rfl

theorem bucket_vadd (p : Nat) : ∀ (pos : List Nat) (y y' : V),
    Index.bucket pos (vadd y y') p = Index.bucket pos y p + Index.bucket pos y' p
  | [], _, _ => by simp [Index.bucket_nil]
  | a :: pos, [], y' => by simp [Index.bucket]
  | a :: pos, b :: y, [] => by simp [Index.bucket]
  | a :: pos, b :: y, b' :: y' => by
    rw [vadd_cons, Index.bucket_cons, Index.bucket_cons, Index.bucket_cons, bucket_vadd p pos y y']
    by_cases h : a = p
    · simp only [h, if_true]; ring
    · simp only [h, if_false]; ring

theorem scatterAdd_vadd (n : Nat) (pos : List Nat) : Add (Index.scatterAdd n pos) := fun y y' => by
  simp only [Index.scatterAdd_eq]
  rw [← map_add_eq_vadd]
  exact List.map_congr_left fun p _ => bucket_vadd p pos y y'

theorem scatterLeaf_vadd (idx : List IdxEntry) (lo li : LeafS) : Add (scatterLeaf idx lo li) := fun x y => by
  unfold scatterLeaf
  split
  · exact scatterAdd_vadd _ _ x y
  · rfl

/-! #### diagonal -/

theorem broadcastTo_vadd (sh : List Nat) (x y : V) (shape : List Nat) :
    ((⟨sh, vadd x y⟩ : Tensor ℝ).broadcastTo shape).data =
      vadd ((⟨sh, x⟩ : Tensor ℝ).broadcastTo shape).data ((⟨sh, y⟩ : Tensor ℝ).broadcastTo shape).data := by
  unfold Tensor.broadcastTo
  simp only [getD_vadd']
  exact map_add_eq_vadd _ _ _

theorem zipWith_mul_vadd : ∀ (d x y : V),
    List.zipWith (· * ·) d (vadd x y) = vadd (List.zipWith (· * ·) d x) (List.zipWith (· * ·) d y)
  | [], _, _ => by simp
  | _ :: _, [], _ => by simp
  | _ :: _, _ :: _, [] => by simp
  | u :: d, a :: x, b :: y => by
    simp only [vadd_cons, List.zipWith_cons_cons, zipWith_mul_vadd d x y, List.cons.injEq, and_true]
    ring

theorem diagApply_vadd (strict : Bool) (v : Tensor ℝ) (spec : Diagonal.AxisSpec) (sh : List Nat) (x y : V) :
    exData (Diagonal.apply strict v spec (⟨sh, vadd x y⟩ : Tensor ℝ)) =
      vadd (exData (Diagonal.apply strict v spec (⟨sh, x⟩ : Tensor ℝ)))
        (exData (Diagonal.apply strict v spec (⟨sh, y⟩ : Tensor ℝ))) := by
  unfold Diagonal.apply
  simp only []
  split
  · rfl
  · cases Diagonal.normalizeAxes (Diagonal.normalizeSpec v.shape.length spec) sh.length with
    | error e => rfl
    | ok ax =>
      simp only [bind, Except.bind]
      cases Diagonal.reshapeDiagonal v ax sh.length with
      | error e => rfl
      | ok d =>
        simp only [Diagonal.reshapeLeaf, Tensor.zipBroadcast]
        cases broadcastShapes d.shape (sh ++ List.replicate (Diagonal.rightDims ax sh.length) 1) with
        | none => rfl
        | some shape =>
          simp only [Option.bind_eq_bind, Option.bind_some]
          split
          · rfl
          · simp only [exData, broadcastTo_vadd, zipWith_mul_vadd]

theorem diagLeaf_vadd (strict : Bool) (vals : Tensor Rat) (axes : List Int) (li lo : LeafS) :
    Add (diagLeaf strict vals axes li lo) := fun x y => diagApply_vadd strict _ _ _ x y

/-! #### Stokes kernels -/

/-- the sum of two Stokes samples -/
def sva (s s' : SV ℝ) : SV ℝ := ⟨s.i + s'.i, s.q + s'.q, s.u + s'.u, s.v + s'.v⟩

/-- an additive sample-wise map -/
def SVAdd (g : SV ℝ → SV ℝ) : Prop := ∀ s s', g (sva s s') = sva (g s) (g s')

theorem present_sva (k : StokesKind) (s s' : SV ℝ) :
    SV.present k (sva s s') = vadd (SV.present k s) (SV.present k s') := by
  cases k <;> rfl

theorem ofPresent_add (k : StokesKind) (l l' : V) (h : l.length = l'.length) :
    SV.ofPresent k (List.zipWith (· + ·) l l') 0 = sva (SV.ofPresent k l 0) (SV.ofPresent k l' 0) := by
  cases k <;> rcases l with _ | ⟨x1, _ | ⟨x2, _ | ⟨x3, _ | ⟨x4, _ | ⟨x5, l⟩⟩⟩⟩⟩ <;>
    rcases l' with _ | ⟨y1, _ | ⟨y2, _ | ⟨y3, _ | ⟨y4, _ | ⟨y5, l'⟩⟩⟩⟩⟩ <;>
    first
      | (exfalso; simp at h; done)
      | simp [SV.ofPresent, sva]

theorem hwp_add : SVAdd SV.hwp := fun s s' => by
  simp only [SV.hwp, sva, SV.mk.injEq, true_and]; constructor <;> ring

theorem rot_add (c s₀ : ℝ) : SVAdd (SV.rot c s₀) := fun s s' => by
  simp only [SV.rot, sva, SV.mk.injEq, true_and, and_true]; constructor <;> ring

theorem rotT_add (c s₀ : ℝ) : SVAdd (SV.rotT c s₀) := fun s s' => by
  simp only [SV.rotT, sva, SV.mk.injEq, true_and, and_true]; constructor <;> ring

theorem comps_getD_vadd (t : Nat) : ∀ (ns : List Nat) (x y : V),
    (chunks ns (vadd x y)).map (fun c => c.getD t 0) =
      List.zipWith (· + ·) ((chunks ns x).map fun c => c.getD t 0) ((chunks ns y).map fun c => c.getD t 0)
  | [], _, _ => rfl
  | n :: ns, x, y => by
    simp only [chunks_cons, List.map_cons, List.zipWith_cons_cons, headChunk_vadd n x y, getD_vadd, drop_vadd,
      comps_getD_vadd t ns]

theorem svAt_vadd (k : StokesKind) (n : Nat) (x y : V) (t : Nat) :
    svAt k n (vadd x y) t = sva (svAt k n x t) (svAt k n y t) := by
  unfold svAt
  rw [comps_getD_vadd, ofPresent_add _ _ _ (by simp)]

theorem stokesMap_vadd (k : StokesKind) (n : Nat) (g : Nat → SV ℝ → SV ℝ) (hg : ∀ t, SVAdd (g t)) :
    Add (stokesMap k n g) := fun x y => by
  rw [stokesMap_eq, stokesMap_eq, stokesMap_eq]
  simp only [svAt_vadd, hg _ _ _, present_sva, getD_vadd, map_add_eq_vadd]
  exact flatten_map_vadd _ _ _ (by simp)

theorem pol_sva (k : StokesKind) (s s' : SV ℝ) :
    SV.pol (1 / 2 : ℝ) k (sva s s') = SV.pol (1 / 2 : ℝ) k s + SV.pol (1 / 2 : ℝ) k s' := by
  cases k <;> simp only [SV.pol, sva] <;> ring

theorem polMap_vadd (k : StokesKind) (n : Nat) : Add (polMap k n) := fun x y => by
  rw [polMap_eq, polMap_eq, polMap_eq]
  simp only [svAt_vadd, pol_sva]
  exact map_add_eq_vadd _ _ _

theorem polT_sample_add (k : StokesKind) (a b : ℝ) (c : Nat) :
    (SV.present k (⟨(1 / 2 : ℝ) * (a + b), (1 / 2 : ℝ) * (a + b), 0, 0⟩ : SV ℝ)).getD c 0 =
      (SV.present k (⟨(1 / 2 : ℝ) * a, (1 / 2 : ℝ) * a, 0, 0⟩ : SV ℝ)).getD c 0 +
      (SV.present k (⟨(1 / 2 : ℝ) * b, (1 / 2 : ℝ) * b, 0, 0⟩ : SV ℝ)).getD c 0 := by
  rw [← getD_vadd, ← present_sva]
  congr 2
  simp only [sva, SV.mk.injEq, add_zero, and_true]
  constructor <;> ring

theorem polTMap_vadd (k : StokesKind) (n : Nat) : Add (polTMap k n) := fun y y' => by
  unfold polTMap
  simp only [getD_vadd, polT_sample_add, map_add_eq_vadd]
  exact flatten_map_vadd _ _ _ (by simp)

/-! #### Toeplitz -/

theorem rowOf_vadd (l : Nat) (x y : V) (b j : Nat) :
    rowOf l (vadd x y) b j = rowOf l x b j + rowOf l y b j := getD_vadd x y _

/-- the Toeplitz kernel of a leaf is additive, for every pair of input lists (and every band array, batched or not) -/
theorem toepLeaf_vadd (K : Nat) (vals : Tensor Rat) (li lo : LeafS) : Add (toepLeaf K vals li lo) := fun x y => by
  unfold toepLeaf
  simp only []
  rw [← map_add_eq_vadd]
  apply List.map_congr_left
  intro q _
  rw [← toep_add]
  exact toep_congr _ _ _ _ _ _ fun j _ => rowOf_vadd _ x y _ j

/-! #### the leaves -/

theorem vsmul_add (q : Rat) : Add (vsmul q) := fun x y => vsmul_vadd q x y

/-- **leaf additivity** (every leaf class, every parameter, every pair of inputs — no validity hypothesis) -/
theorem leafDen_vadd (E : Env) (hE : EnvAdd E) (u : Nat) (c : LeafCls) (p : Params) : Add (leafDen E u c p) :=
  fun x y => by
  unfold leafDen
  simp only []
  rw [fit_vadd p.inS.size x y]
  have hl : (fit p.inS.size x).length = (fit p.inS.size y).length := by simp
  generalize fit p.inS.size x = xi at hl ⊢
  generalize fit p.inS.size y = yi at hl ⊢
  refine Eq.trans ?_ (fit_vadd _ _ _)
  congr 1
  cases c <;> simp only []
  case homothety => exact vsmul_add _ xi yi
  case diagonal => exact perLeaf_vadd _ (diagLeaf_vadd _ _ _) _ _ xi yi
  case broadcastDiagonal => exact perLeaf_vadd _ (diagLeaf_vadd _ _ _) _ _ xi yi
  case index => exact perLeaf_vadd _ (gatherLeaf_vadd _) _ _ xi yi
  case pack => exact perLeaf_vadd _ (gatherLeaf_vadd _) _ _ xi yi
  case moveAxis => exact perLeaf_vadd _ (moveLeaf_vadd _ _) _ _ xi yi
  case qurot =>
    split
    · exact stokesMap_vadd _ _ _ (fun t => rot_add _ _) xi yi
    · rfl
  case hwp =>
    split
    · exact stokesMap_vadd _ _ _ (fun _ => hwp_add) xi yi
    · rfl
  case polarizer =>
    split
    · exact polMap_vadd _ _ xi yi
    · rfl
  case toeplitz =>
    split
    · exact perLeaf_vadd _ (toepLeaf_vadd _ _) _ _ xi yi
    · exact hE.add u xi yi hl
  case dense =>
    split
    · exact denseLeaf_add p xi yi
    · exact hE.add u xi yi hl
  all_goals exact hE.add u xi yi hl

theorem leafDenT_vadd (E : Env) (hE : EnvAdd E) (u : Nat) (c : LeafCls) (p : Params) : Add (leafDenT E u c p) :=
  fun x y => by
  unfold leafDenT
  simp only []
  rw [fit_vadd _ x y]
  have hl : (fit (if squareLeaf c = true then p.inS else p.outS).size x).length =
      (fit (if squareLeaf c = true then p.inS else p.outS).size y).length := by simp
  generalize fit (if squareLeaf c = true then p.inS else p.outS).size x = xi at hl ⊢
  generalize fit (if squareLeaf c = true then p.inS else p.outS).size y = yi at hl ⊢
  refine Eq.trans ?_ (fit_vadd _ _ _)
  congr 1
  cases c <;> simp only []
  case homothety => exact vsmul_add _ xi yi
  case diagonal => exact perLeaf_vadd _ (diagLeaf_vadd _ _ _) _ _ xi yi
  case index => exact perLeaf_vadd _ (scatterLeaf_vadd _) _ _ xi yi
  case pack => exact perLeaf_vadd _ (scatterLeaf_vadd _) _ _ xi yi
  case moveAxis => exact perLeaf_vadd _ (moveLeaf_vadd _ _) _ _ xi yi
  case qurot =>
    split
    · exact stokesMap_vadd _ _ _ (fun t => rotT_add _ _) xi yi
    · rfl
  case hwp =>
    split
    · exact stokesMap_vadd _ _ _ (fun _ => hwp_add) xi yi
    · rfl
  case polarizer =>
    split
    · exact polTMap_vadd _ _ xi yi
    · rfl
  case toeplitz =>
    split
    · exact perLeaf_vadd _ (toepLeaf_vadd _ _) _ _ xi yi
    · exact hE.addT u xi yi hl
  case dense =>
    split
    · exact denseLeafT_add p xi yi
    · exact hE.addT u xi yi hl
  all_goals exact hE.addT u xi yi hl

/-- the statement of the task: on vectors of the declared input size, with the entrywise sum -/
theorem leafDen_additive (E : Env) (hE : EnvAdd E) (u : Nat) (c : LeafCls) (p : Params) (x y : V)
    (hx : x.length = p.inS.size) (hy : y.length = p.inS.size) :
    leafDen E u c p (List.zipWith (· + ·) x y) =
      List.zipWith (· + ·) (leafDen E u c p x) (leafDen E u c p y) := by
  rw [← vadd_eq_zipWith x y (hx.trans hy.symm), leafDen_vadd E hE u c p x y,
    vadd_eq_zipWith _ _ (by rw [leafDen_length, leafDen_length])]

/-- the transpose, on vectors of the declared output size -/
theorem leafDenT_additive (E : Env) (hE : EnvAdd E) (u : Nat) (c : LeafCls) (p : Params) (x y : V)
    (hx : x.length = (Op.outS (.leaf u c p)).size) (hy : y.length = (Op.outS (.leaf u c p)).size) :
    leafDenT E u c p (List.zipWith (· + ·) x y) =
      List.zipWith (· + ·) (leafDenT E u c p x) (leafDenT E u c p y) := by
  rw [← vadd_eq_zipWith x y (hx.trans hy.symm), leafDenT_vadd E hE u c p x y,
    vadd_eq_zipWith _ _ (by rw [leafDenT_length, leafDenT_length])]

/-! ### 3. every operator is additive -/

/-- **the lazy inverse of an additive map is additive**: when an inverse on `ℝⁿ` exists it is unique there
(`isInvOn_unique`) and additive because `f` is; when none exists `chooseInv n f` is the zero map.  Nothing else is
asked of `f` (not even that it keeps the length). -/
theorem chooseInv_add (n : Nat) (f : V → V)
    (hf : ∀ x y : V, x.length = n → y.length = n → f (vadd x y) = vadd (f x) (f y)) : Add (chooseInv n f) := by
  intro x y
  unfold chooseInv
  split
  · rename_i h
    obtain ⟨hg, _⟩ := Classical.choose_spec h
    generalize Classical.choose h = g at hg
    show fit n (g (fit n (vadd x y))) = vadd (fit n (g (fit n x))) (fit n (g (fit n y)))
    rw [fit_vadd n x y, ← fit_vadd n (g (fit n x)) (g (fit n y))]
    congr 1
    obtain ⟨hx1, hx2, _⟩ := hg (fit n x) (fit_length n x)
    obtain ⟨hy1, hy2, _⟩ := hg (fit n y) (fit_length n y)
    have hs : (vadd (g (fit n x)) (g (fit n y))).length = n := by rw [vadd_length, hx1, hy1, Nat.max_self]
    have := (hg _ hs).2.2
    rw [hf _ _ hx1 hy1, hx2, hy2] at this
    exact this
  · exact (vadd_replicate_zero n).symm

theorem app_add (E : Env) (ops : List Op) (h : ∀ o ∈ ops, Add (den E o)) : Add (app E ops) := by
  intro x y
  induction ops with
  | nil => rfl
  | cons o os ih =>
    rw [app, app, app, ih (fun o' ho' => h o' (List.mem_cons_of_mem _ ho')), h o (List.mem_cons_self ..)]

theorem appT_add (E : Env) (ops : List Op) (h : ∀ o ∈ ops, Add (denT E o)) : Add (appT E ops) := by
  intro x y
  induction ops generalizing x y with
  | nil => rfl
  | cons o os ih =>
    rw [appT, appT, appT, h o (List.mem_cons_self ..), ih (fun o' ho' => h o' (List.mem_cons_of_mem _ ho'))]

theorem sumApp_add (E : Env) (ops : List Op) (h : ∀ o ∈ ops, Add (den E o)) : Add (sumApp E ops) := by
  intro x y
  induction ops with
  | nil => rfl
  | cons o os ih =>
    rw [sumApp, sumApp, sumApp, ih (fun o' ho' => h o' (List.mem_cons_of_mem _ ho')), h o (List.mem_cons_self ..),
      vadd_vadd_vadd_comm]

theorem sumAppT_add (E : Env) (ops : List Op) (h : ∀ o ∈ ops, Add (denT E o)) : Add (sumAppT E ops) := by
  intro x y
  induction ops with
  | nil => rfl
  | cons o os ih =>
    rw [sumAppT, sumAppT, sumAppT, ih (fun o' ho' => h o' (List.mem_cons_of_mem _ ho')),
      h o (List.mem_cons_self ..), vadd_vadd_vadd_comm]

theorem rowApp_add (E : Env) (ops : List Op) (h : ∀ o ∈ ops, Add (den E o)) : Add (rowApp E ops) := by
  intro x y
  induction ops generalizing x y with
  | nil => rfl
  | cons o os ih =>
    rw [rowApp, rowApp, rowApp, drop_vadd, ih (fun o' ho' => h o' (List.mem_cons_of_mem _ ho')),
      headChunk_vadd, h o (List.mem_cons_self ..), vadd_vadd_vadd_comm]

theorem rowAppT_add (E : Env) (ops : List Op) (h : ∀ o ∈ ops, Add (denT E o)) : Add (rowAppT E ops) := by
  intro x y
  induction ops generalizing x y with
  | nil => rfl
  | cons o os ih =>
    rw [rowAppT, rowAppT, rowAppT, drop_vadd, ih (fun o' ho' => h o' (List.mem_cons_of_mem _ ho')),
      headChunk_vadd, h o (List.mem_cons_self ..), vadd_vadd_vadd_comm]

theorem diagApp_add (E : Env) (ops : List Op) (h : ∀ o ∈ ops, Add (den E o)) : Add (diagApp E ops) := by
  intro x y
  induction ops generalizing x y with
  | nil => rfl
  | cons o os ih =>
    rw [diagApp, diagApp, diagApp, drop_vadd, ih (fun o' ho' => h o' (List.mem_cons_of_mem _ ho')),
      headChunk_vadd, h o (List.mem_cons_self ..), fit_vadd, vadd_append _ _ (by simp)]

theorem diagAppT_add (E : Env) (ops : List Op) (h : ∀ o ∈ ops, Add (denT E o)) : Add (diagAppT E ops) := by
  intro x y
  induction ops generalizing x y with
  | nil => rfl
  | cons o os ih =>
    rw [diagAppT, diagAppT, diagAppT, drop_vadd, ih (fun o' ho' => h o' (List.mem_cons_of_mem _ ho')),
      headChunk_vadd, h o (List.mem_cons_self ..), fit_vadd, vadd_append _ _ (by simp)]

theorem colApp_add (E : Env) (ops : List Op) (h : ∀ o ∈ ops, Add (den E o)) : Add (colApp E ops) := by
  intro x y
  induction ops with
  | nil => rfl
  | cons o os ih =>
    rw [colApp, colApp, colApp, ih (fun o' ho' => h o' (List.mem_cons_of_mem _ ho')), h o (List.mem_cons_self ..),
      fit_vadd, vadd_append _ _ (by simp)]

theorem colAppT_add (E : Env) (ops : List Op) (h : ∀ o ∈ ops, Add (denT E o)) : Add (colAppT E ops) := by
  intro x y
  induction ops with
  | nil => rfl
  | cons o os ih =>
    rw [colAppT, colAppT, colAppT, ih (fun o' ho' => h o' (List.mem_cons_of_mem _ ho')),
      h o (List.mem_cons_self ..), fit_vadd, vadd_append _ _ (by simp)]

/-- both additivity laws at one operator -/
def AddAt (E : Env) (o : Op) : Prop := Add (den E o) ∧ Add (denT E o)

theorem addAt_leaf (E : Env) (hE : EnvAdd E) (u : Nat) (c : LeafCls) (p : Params) : AddAt E (.leaf u c p) :=
  ⟨fun x y => by rw [den]; exact leafDen_vadd E hE u c p x y,
   fun x y => by rw [denT]; exact leafDenT_vadd E hE u c p x y⟩

theorem addAt_wrap (E : Env) (hE : EnvAdd E) (u : Nat) (k : WrapCls) (o : Op) (ih : AddAt E o) :
    AddAt E (.wrap u k o) := by
  obtain ⟨ih1, ih2⟩ := ih
  cases k with
  | inverse =>
    refine ⟨?_, ?_⟩
    · rw [den]; exact chooseInv_add _ _ fun x y _ _ => ih1 x y
    · rw [denT]; exact chooseInv_add _ _ fun x y _ _ => ih2 x y
  | diagInv =>
    by_cases hd : ∃ u' p, o = .leaf u' .diagonal p
    · obtain ⟨u', p, rfl⟩ := hd
      refine ⟨?_, ?_⟩
      · rw [den]; exact leafDen_vadd E hE _ _ _
      · rw [denT]; exact leafDen_vadd E hE _ _ _
    · have hd' : ∀ (u' : ℕ) (p : Params), o = leaf u' LeafCls.diagonal p → False :=
        fun u' p h => hd ⟨u', p, h⟩
      refine ⟨?_, ?_⟩
      · rw [den.eq_4 _ _ _ hd']; exact chooseInv_add _ _ fun x y _ _ => ih1 x y
      · rw [denT.eq_4 _ _ _ hd']; exact chooseInv_add _ _ fun x y _ _ => ih2 x y
  | transpose =>
    exact ⟨by rw [den.eq_5 _ _ _ _ (by simp) (by simp) (by simp)]; exact ih2,
      by rw [denT.eq_5 _ _ _ _ (by simp) (by simp) (by simp)]; exact ih1⟩
  | reshapeT =>
    exact ⟨by rw [den.eq_5 _ _ _ _ (by simp) (by simp) (by simp)]; exact ih2,
      by rw [denT.eq_5 _ _ _ _ (by simp) (by simp) (by simp)]; exact ih1⟩
  | qurotT =>
    exact ⟨by rw [den.eq_5 _ _ _ _ (by simp) (by simp) (by simp)]; exact ih2,
      by rw [denT.eq_5 _ _ _ _ (by simp) (by simp) (by simp)]; exact ih1⟩
  | obsT =>
    exact ⟨by rw [den.eq_5 _ _ _ _ (by simp) (by simp) (by simp)]; exact ih2,
      by rw [denT.eq_5 _ _ _ _ (by simp) (by simp) (by simp)]; exact ih1⟩

theorem addAt_comp (E : Env) (u : Nat) (ops : List Op) (ih : ∀ o ∈ ops, AddAt E o) : AddAt E (.comp u ops) :=
  ⟨by rw [den]; exact app_add E ops fun o ho => (ih o ho).1,
   by rw [denT]; exact appT_add E ops fun o ho => (ih o ho).2⟩

theorem addAt_cont (E : Env) (u : Nat) (k : ContCls) (td : TreeDef) (ops : List Op)
    (ih : ∀ o ∈ ops, AddAt E o) : AddAt E (.cont u k td ops) := by
  cases k with
  | add =>
    exact ⟨by rw [den]; exact sumApp_add E ops fun o ho => (ih o ho).1,
      by rw [denT]; exact sumAppT_add E ops fun o ho => (ih o ho).2⟩
  | blockRow =>
    exact ⟨by rw [den]; exact rowApp_add E ops fun o ho => (ih o ho).1,
      by rw [denT]; exact colAppT_add E ops fun o ho => (ih o ho).2⟩
  | blockDiag =>
    exact ⟨by rw [den]; exact diagApp_add E ops fun o ho => (ih o ho).1,
      by rw [denT]; exact diagAppT_add E ops fun o ho => (ih o ho).2⟩
  | blockCol =>
    exact ⟨by rw [den]; exact colApp_add E ops fun o ho => (ih o ho).1,
      by rw [denT]; exact rowAppT_add E ops fun o ho => (ih o ho).2⟩

mutual
theorem addAt (E : Env) (hE : EnvAdd E) : ∀ o, AddAt E o
  | .leaf u c p => addAt_leaf E hE u c p
  | .wrap u k o => addAt_wrap E hE u k o (addAt E hE o)
  | .comp u ops => addAt_comp E u ops (addAtList E hE ops)
  | .cont u k td ops => addAt_cont E u k td ops (addAtList E hE ops)
theorem addAtList (E : Env) (hE : EnvAdd E) : ∀ ops : List Op, ∀ o ∈ ops, AddAt E o
  | [] => fun _ ho => by simp at ho
  | o :: os => by
      intro o' ho'
      rcases List.mem_cons.mp ho' with heq | ho'
      · rw [heq]; exact addAt E hE o
      · exact addAtList E hE os o' ho'
end

/-- **every operator is additive, on ALL inputs** (`vadd` pads the shorter vector with zeros): leaves, the transpose
wrappers, lazy inverses, compositions and sums of any length, block rows / diagonals / columns.  NO structural
hypothesis is needed (every node of the denotation normalises the lengths). -/
theorem den_vadd (E : Env) (hE : EnvAdd E) (o : Op) (x y : V) :
    den E o (vadd x y) = vadd (den E o x) (den E o y) := (addAt E hE o).1 x y

theorem denT_vadd (E : Env) (hE : EnvAdd E) (o : Op) (x y : V) :
    denT E o (vadd x y) = vadd (denT E o x) (denT E o y) := (addAt E hE o).2 x y

/-- **application is additive** (the statement of the task; `StructOK o` is only used to know that the two results
have the same length, so that their `vadd` is the entrywise sum) -/
theorem den_additive (E : Env) (hE : EnvAdd E) : ∀ o, StructOK o → ∀ x y : V, x.length = inSize o →
    y.length = inSize o →
    den E o (List.zipWith (· + ·) x y) = List.zipWith (· + ·) (den E o x) (den E o y) := by
  intro o ho x y hx hy
  rw [← vadd_eq_zipWith x y (hx.trans hy.symm), den_vadd E hE o x y,
    vadd_eq_zipWith _ _ (by rw [den_length E o ho, den_length E o ho])]

/-- the transpose is additive -/
theorem denT_additive (E : Env) (hE : EnvAdd E) : ∀ o, StructOK o → ∀ x y : V, x.length = outSize o →
    y.length = outSize o →
    denT E o (List.zipWith (· + ·) x y) = List.zipWith (· + ·) (denT E o x) (denT E o y) := by
  intro o ho x y hx hy
  rw [← vadd_eq_zipWith x y (hx.trans hy.symm), denT_vadd E hE o x y,
    vadd_eq_zipWith _ _ (by rw [denT_length E o ho, denT_length E o ho])]

/-- the same without the size hypotheses: equal lengths are enough -/
theorem den_additive' (E : Env) (hE : EnvAdd E) (o : Op) (ho : StructOK o) (x y : V) (hxy : x.length = y.length) :
    den E o (List.zipWith (· + ·) x y) = List.zipWith (· + ·) (den E o x) (den E o y) := by
  rw [← vadd_eq_zipWith x y hxy, den_vadd E hE o x y,
    vadd_eq_zipWith _ _ (by rw [den_length E o ho, den_length E o ho])]

/-! ### 4. the bridge to Mathlib's linear maps and matrices -/

section Bridge
open Matrix

theorem toFn_vadd (n : Nat) (x y : V) : toFn n (vadd x y) = toFn n x + toFn n y := by
  funext i
  simp only [toFn, Pi.add_apply, getD_vadd]

theorem toFn_nil (n : Nat) : toFn n [] = 0 := by
  funext i
  simp [toFn]

theorem ofFn_add (n : Nat) (v w : Fin n → ℝ) : List.ofFn (v + w) = vadd (List.ofFn v) (List.ofFn w) := by
  have hl : (vadd (List.ofFn v) (List.ofFn w)).length = n := by rw [vadd_length]; simp
  rw [← ofFn_toFn n _ hl, toFn_vadd, toFn_ofFn, toFn_ofFn]

theorem ofFn_smul (n : Nat) (a : ℝ) (v : Fin n → ℝ) : List.ofFn (a • v) = (List.ofFn v).map fun t => a * t := by
  rw [List.map_ofFn]
  rfl

theorem ofFn_single (n : Nat) (j : Fin n) : List.ofFn (Pi.single j (1 : ℝ)) = unitVec n j := by
  apply List.ext_getElem
  · simp [unitVec]
  · intro i h1 h2
    simp [unitVec, Pi.single_apply, Fin.ext_iff]

/-- **the linear map of an operator**, between ANY two dimensions: the flattened input `v : Fin n → ℝ` is listed,
the operator applied, and the first `m` coordinates of the result read.  Additivity is `den_vadd`, homogeneity is
`homLaw` with `leafHom` (a theorem).  With `n = inSize o`, `m = outSize o` and `StructOK o` nothing is lost
(`den_ofFn`). -/
noncomputable def toLinearMapN (E : Env) (hE : EnvAdd E) (o : Op) (n m : Nat) :
    (Fin n → ℝ) →ₗ[ℝ] (Fin m → ℝ) where
  toFun v := toFn m (den E o (List.ofFn v))
  map_add' v w := by rw [ofFn_add, den_vadd E hE, toFn_vadd]
  map_smul' a v := by
    rw [ofFn_smul, (homLaw E (leafHom E)).1 o a, toFn_smul]
    rfl

/-- the same for the transpose -/
noncomputable def toLinearMapTN (E : Env) (hE : EnvAdd E) (o : Op) (m n : Nat) :
    (Fin m → ℝ) →ₗ[ℝ] (Fin n → ℝ) where
  toFun w := toFn n (denT E o (List.ofFn w))
  map_add' v w := by rw [ofFn_add, denT_vadd E hE, toFn_vadd]
  map_smul' a v := by
    rw [ofFn_smul, (homLaw E (leafHom E)).2 o a, toFn_smul]
    rfl

/-- **the linear map `(Fin (inSize o) → ℝ) →ₗ[ℝ] (Fin (outSize o) → ℝ)` of an operator** -/
noncomputable def toLinearMap (E : Env) (hE : EnvAdd E) (o : Op) :
    (Fin (inSize o) → ℝ) →ₗ[ℝ] (Fin (outSize o) → ℝ) := toLinearMapN E hE o (inSize o) (outSize o)

@[simp] theorem toLinearMapN_apply (E : Env) (hE : EnvAdd E) (o : Op) (n m : Nat) (v : Fin n → ℝ) :
    toLinearMapN E hE o n m v = toFn m (den E o (List.ofFn v)) := rfl

@[simp] theorem toLinearMapTN_apply (E : Env) (hE : EnvAdd E) (o : Op) (m n : Nat) (w : Fin m → ℝ) :
    toLinearMapTN E hE o m n w = toFn n (denT E o (List.ofFn w)) := rfl

/-- **the linear map computes the operator**: `den E o` on the listed coordinates is the list of the coordinates of
the image -/
theorem den_ofFn (E : Env) (hE : EnvAdd E) (o : Op) (ho : StructOK o) (n m : Nat) (hm : outSize o = m)
    (v : Fin n → ℝ) : den E o (List.ofFn v) = List.ofFn (toLinearMapN E hE o n m v) :=
  (ofFn_toFn m _ (by rw [den_length E o ho, hm])).symm

theorem den_ofFn' (E : Env) (hE : EnvAdd E) (o : Op) (ho : StructOK o) (v : Fin (inSize o) → ℝ) :
    den E o (List.ofFn v) = List.ofFn (toLinearMap E hE o v) := den_ofFn E hE o ho _ _ rfl v

/-- on lists -/
theorem den_eq_toLinearMapN (E : Env) (hE : EnvAdd E) (o : Op) (ho : StructOK o) (n m : Nat) (hm : outSize o = m)
    (x : V) (hx : x.length = n) : den E o x = List.ofFn (toLinearMapN E hE o n m (toFn n x)) := by
  rw [← den_ofFn E hE o ho n m hm, ofFn_toFn n x hx]

theorem denT_ofFn (E : Env) (hE : EnvAdd E) (o : Op) (ho : StructOK o) (m n : Nat) (hn : inSize o = n)
    (w : Fin m → ℝ) : denT E o (List.ofFn w) = List.ofFn (toLinearMapTN E hE o m n w) :=
  (ofFn_toFn n _ (by rw [denT_length E o ho, hn])).symm

/-- **`as_matrix()`**: the dense matrix of an operator — Mathlib's `toMatrix'` of its linear map, i.e. (`asMatrix_apply`)
the matrix whose `j`-th column is the operator applied to the `j`-th basis vector of the flattened input -/
noncomputable def asMatrix (E : Env) (hE : EnvAdd E) (o : Op) (n m : Nat) : Matrix (Fin m) (Fin n) ℝ :=
  LinearMap.toMatrix' (toLinearMapN E hE o n m)

/-- the dense matrix of the transpose -/
noncomputable def asMatrixT (E : Env) (hE : EnvAdd E) (o : Op) (m n : Nat) : Matrix (Fin n) (Fin m) ℝ :=
  LinearMap.toMatrix' (toLinearMapTN E hE o m n)

/-- **the generic recipe of `as_matrix()`**: entry `(i, j)` is component `i` of the operator applied to the `j`-th
basis vector -/
theorem asMatrix_apply (E : Env) (hE : EnvAdd E) (o : Op) (n m : Nat) (i : Fin m) (j : Fin n) :
    asMatrix E hE o n m i j = (den E o (unitVec n j)).getD i 0 := by
  rw [asMatrix, C04.generic_as_matrix_columns, toLinearMapN_apply, ofFn_single]
  rfl

/-- **C04: `op(x) = as_matrix() · flatten(x)` for every `x`** -/
theorem den_eq_asMatrix_mulVec (E : Env) (hE : EnvAdd E) (o : Op) (ho : StructOK o) (n m : Nat)
    (hm : outSize o = m) (v : Fin n → ℝ) :
    den E o (List.ofFn v) = List.ofFn (asMatrix E hE o n m *ᵥ v) := by
  rw [asMatrix, C04.mv_eq_as_matrix_mulVec]
  exact den_ofFn E hE o ho n m hm v

/-- the same at the declared sizes -/
theorem den_eq_asMatrix_mulVec' (E : Env) (hE : EnvAdd E) (o : Op) (ho : StructOK o) (v : Fin (inSize o) → ℝ) :
    den E o (List.ofFn v) = List.ofFn (asMatrix E hE o (inSize o) (outSize o) *ᵥ v) :=
  den_eq_asMatrix_mulVec E hE o ho _ _ rfl v

/-- the same on lists: application = dense matrix times the flattened input -/
theorem den_eq_asMatrix_mulVec_list (E : Env) (hE : EnvAdd E) (o : Op) (ho : StructOK o) (n m : Nat)
    (hm : outSize o = m) (x : V) (hx : x.length = n) :
    den E o x = List.ofFn (asMatrix E hE o n m *ᵥ toFn n x) := by
  rw [← den_eq_asMatrix_mulVec E hE o ho n m hm, ofFn_toFn n x hx]

/-- **C04: faithfulness** — two operators with the same dense matrix compute the same vectors -/
theorem asMatrix_faithful (E : Env) (hE : EnvAdd E) (o o' : Op) (ho : StructOK o) (ho' : StructOK o') (n m : Nat)
    (hm : outSize o = m) (hm' : outSize o' = m) (h : asMatrix E hE o n m = asMatrix E hE o' n m) :
    ∀ x : V, x.length = n → den E o x = den E o' x := by
  intro x hx
  have hl : toLinearMapN E hE o n m = toLinearMapN E hE o' n m := C04.as_matrix_faithful _ _ h
  rw [den_eq_toLinearMapN E hE o ho n m hm x hx, den_eq_toLinearMapN E hE o' ho' n m hm' x hx, hl]

/-- conversely the dense matrix only depends on the vectors the operator computes -/
theorem asMatrix_congr (E : Env) (hE : EnvAdd E) (o o' : Op) (n m : Nat)
    (h : ∀ x : V, x.length = n → den E o x = den E o' x) : asMatrix E hE o n m = asMatrix E hE o' n m := by
  unfold asMatrix
  congr 1
  ext v i
  simp only [LinearMap.coe_comp, Function.comp, LinearMap.coe_single, toLinearMapN_apply]
  rw [h _ (by simp)]

/-- the linear maps version -/
theorem toLinearMapN_congr (E : Env) (hE : EnvAdd E) (o o' : Op) (n m : Nat)
    (h : ∀ x : V, x.length = n → den E o x = den E o' x) : toLinearMapN E hE o n m = toLinearMapN E hE o' n m := by
  apply LinearMap.ext
  intro v
  rw [toLinearMapN_apply, toLinearMapN_apply, h _ (by simp)]

/-! #### compositions -/

/-- the linear map of `a ∘ b` is the composition of the linear maps -/
theorem toLinearMapN_comp (E : Env) (hE : EnvAdd E) (u : Nat) (a b : Op) (hb : StructOK b) (n m k : Nat)
    (hm : outSize b = m) :
    toLinearMapN E hE (.comp u [a, b]) n k = toLinearMapN E hE a m k ∘ₗ toLinearMapN E hE b n m := by
  apply LinearMap.ext
  intro v
  rw [LinearMap.comp_apply, toLinearMapN_apply, toLinearMapN_apply, toLinearMapN_apply,
    ofFn_toFn m _ (by rw [den_length E b hb, hm]), Laws.comp_law, app, app, app]

/-- chains of any length: peel the head -/
theorem toLinearMapN_comp_cons (E : Env) (hE : EnvAdd E) (u u' : Nat) (a : Op) (os : List Op)
    (hos : StructOK (.comp u' os)) (n m k : Nat) (hm : outSize (.comp u' os) = m) :
    toLinearMapN E hE (.comp u (a :: os)) n k =
      toLinearMapN E hE a m k ∘ₗ toLinearMapN E hE (.comp u' os) n m := by
  apply LinearMap.ext
  intro v
  rw [LinearMap.comp_apply, toLinearMapN_apply, toLinearMapN_apply, toLinearMapN_apply,
    ofFn_toFn m _ (by rw [den_length E _ hos, hm]), Laws.comp_law, Laws.comp_law, app]

/-- **C04: the matrix of a composition is the product of the matrices** -/
theorem asMatrix_comp (E : Env) (hE : EnvAdd E) (u : Nat) (a b : Op) (hb : StructOK b) (n m k : Nat)
    (hm : outSize b = m) :
    asMatrix E hE (.comp u [a, b]) n k = asMatrix E hE a m k * asMatrix E hE b n m := by
  rw [asMatrix, toLinearMapN_comp E hE u a b hb n m k hm, C04.composition_matrix]
  rfl

theorem asMatrix_comp_cons (E : Env) (hE : EnvAdd E) (u u' : Nat) (a : Op) (os : List Op)
    (hos : StructOK (.comp u' os)) (n m k : Nat) (hm : outSize (.comp u' os) = m) :
    asMatrix E hE (.comp u (a :: os)) n k = asMatrix E hE a m k * asMatrix E hE (.comp u' os) n m := by
  rw [asMatrix, toLinearMapN_comp_cons E hE u u' a os hos n m k hm, C04.composition_matrix]
  rfl

/-- a chain of one operator is that operator -/
theorem asMatrix_comp_singleton (E : Env) (hE : EnvAdd E) (u : Nat) (a : Op) (n m : Nat) :
    asMatrix E hE (.comp u [a]) n m = asMatrix E hE a n m :=
  asMatrix_congr E hE _ _ n m fun x _ => by rw [Laws.comp_law, app, app]

/-! #### sums -/

theorem den_add_eq (E : Env) (u : Nat) (td : TreeDef) (ops : List Op) :
    den E (.cont u .add td ops) = sumApp E ops := by rw [den]

theorem toLinearMapN_add_nil (E : Env) (hE : EnvAdd E) (u : Nat) (td : TreeDef) (n m : Nat) :
    toLinearMapN E hE (.cont u .add td []) n m = 0 := by
  apply LinearMap.ext
  intro v
  rw [toLinearMapN_apply, den_add_eq, sumApp, toFn_nil]
  rfl

theorem toLinearMapN_add_cons (E : Env) (hE : EnvAdd E) (u u' : Nat) (td td' : TreeDef) (a : Op) (os : List Op)
    (n m : Nat) :
    toLinearMapN E hE (.cont u .add td (a :: os)) n m =
      toLinearMapN E hE a n m + toLinearMapN E hE (.cont u' .add td' os) n m := by
  apply LinearMap.ext
  intro v
  rw [LinearMap.add_apply, toLinearMapN_apply, toLinearMapN_apply, toLinearMapN_apply, den_add_eq, den_add_eq,
    sumApp, toFn_vadd]

/-- the linear map of a sum (of any length, no hypothesis at all) is the sum of the linear maps -/
theorem toLinearMapN_add (E : Env) (hE : EnvAdd E) (u : Nat) (td : TreeDef) (ops : List Op) (n m : Nat) :
    toLinearMapN E hE (.cont u .add td ops) n m = (ops.map fun o => toLinearMapN E hE o n m).sum := by
  induction ops with
  | nil => exact toLinearMapN_add_nil E hE u td n m
  | cons a os ih => rw [toLinearMapN_add_cons E hE u u td td a os n m, ih, List.map_cons, List.sum_cons]

/-- **C04: the matrix of a sum is the sum of the matrices** -/
theorem asMatrix_add (E : Env) (hE : EnvAdd E) (u : Nat) (td : TreeDef) (ops : List Op) (n m : Nat) :
    asMatrix E hE (.cont u .add td ops) n m = (ops.map fun o => asMatrix E hE o n m).sum := by
  rw [asMatrix, toLinearMapN_add, map_list_sum, List.map_map]
  rfl

theorem asMatrix_add_pair (E : Env) (hE : EnvAdd E) (u : Nat) (td : TreeDef) (a b : Op) (n m : Nat) :
    asMatrix E hE (.cont u .add td [a, b]) n m = asMatrix E hE a n m + asMatrix E hE b n m := by
  rw [asMatrix_add]
  simp

/-! #### the specialised overrides: identity, scalar operators -/

/-- identity: `jnp.identity(in_size)` -/
theorem asMatrix_identity (E : Env) (hE : EnvAdd E) (o : Op) (h : o.isIdentity = true) (n : Nat)
    (hn : inSize o = n) : asMatrix E hE o n n = 1 := by
  have : toLinearMapN E hE o n n = LinearMap.id := by
    apply LinearMap.ext
    intro v
    rw [toLinearMapN_apply, Laws.identity_law E o h _ (by simp [mem, ← hn, inSize]), toFn_ofFn]
    rfl
  rw [asMatrix, this]
  exact C04.identity_override

/-- scalar operator: `value * identity` -/
theorem asMatrix_homothety (E : Env) (hE : EnvAdd E) (o : Op) (h : o.isHomothety = true) (n : Nat)
    (hn : inSize o = n) : asMatrix E hE o n n = ((homValue o : Rat) : ℝ) • (1 : Matrix (Fin n) (Fin n) ℝ) := by
  have : toLinearMapN E hE o n n = ((homValue o : Rat) : ℝ) • LinearMap.id := by
    apply LinearMap.ext
    intro v
    rw [toLinearMapN_apply, Laws.homothety_law E o h _ (by simp [mem, ← hn, inSize]), vsmul_eq_map, toFn_smul,
      toFn_ofFn]
    rfl
  rw [asMatrix, this]
  exact C04.homothety_override _

/-! #### transposes -/

/-- if `t` is an adjoint of `o` for the Euclidean pairing, its dense matrix is the transpose of that of `o` -/
theorem asMatrix_of_adjoint (E : Env) (hE : EnvAdd E) (o t : Op) (n m : Nat)
    (h : ∀ (v : Fin n → ℝ) (w : Fin m → ℝ),
      dot (den E o (List.ofFn v)) (List.ofFn w) = dot (List.ofFn v) (den E t (List.ofFn w))) :
    asMatrix E hE t m n = (asMatrix E hE o n m)ᵀ := by
  ext j i
  rw [Matrix.transpose_apply, asMatrix, asMatrix, C04.generic_as_matrix_columns, C04.generic_as_matrix_columns,
    toLinearMapN_apply, toLinearMapN_apply]
  have := h (Pi.single j 1) (Pi.single i 1)
  rw [dot_ofFn_left, dot_comm, dot_ofFn_left, single_one_dotProduct, single_one_dotProduct] at this
  exact this.symm

theorem den_wrap_transpose (E : Env) (u : Nat) (o : Op) : den E (.wrap u .transpose o) = denT E o :=
  den.eq_5 _ _ _ _ (by simp) (by simp) (by simp)

/-- the matrix of `denT` is the matrix of `TransposeOperator(o)` -/
theorem asMatrixT_eq (E : Env) (hE : EnvAdd E) (u : Nat) (o : Op) (m n : Nat) :
    asMatrixT E hE o m n = asMatrix E hE (.wrap u .transpose o) m n := by
  have : toLinearMapTN E hE o m n = toLinearMapN E hE (.wrap u .transpose o) m n := by
    apply LinearMap.ext
    intro w
    rw [toLinearMapTN_apply, toLinearMapN_apply, den_wrap_transpose]
  rw [asMatrixT, asMatrix, this]

/-- **the dense matrix of `TransposeOperator(o)` is the transpose of the dense matrix of `o`** (C03 ∧ C04), for
every valid expression (all constructors), under the adjointness assumption on the uninterpreted leaves of `o` -/
theorem asMatrix_transpose (E : Env) (hE : EnvAdd E) (u : Nat) (o : Op) (hA : EnvAdjOn E o) (hv : Valid o) :
    asMatrix E hE (.wrap u .transpose o) (outSize o) (inSize o) = (asMatrix E hE o (inSize o) (outSize o))ᵀ :=
  asMatrix_of_adjoint E hE o _ _ _ fun v w => by
    rw [den_wrap_transpose]
    exact den_adjoint_on E o hA hv _ _ (by simp) (by simp)

theorem asMatrixT_transpose (E : Env) (hE : EnvAdd E) (o : Op) (hA : EnvAdjOn E o) (hv : Valid o) :
    asMatrixT E hE o (outSize o) (inSize o) = (asMatrix E hE o (inSize o) (outSize o))ᵀ := by
  rw [asMatrixT_eq E hE 0, asMatrix_transpose E hE 0 o hA hv]

/-- the same for the FORM `op.T` that the model computes (`transposeOp`) -/
theorem asMatrix_transposeOp (E : Env) (hE : EnvAdd E) (o t : Op) (hA : EnvAdjOn E o) (hS : EnvSymOn E o)
    (hv : ValidT o) (hw : o.WFT) (h : transposeOp o = .ok t) :
    asMatrix E hE t (outSize o) (inSize o) = (asMatrix E hE o (inSize o) (outSize o))ᵀ :=
  asMatrix_of_adjoint E hE o t _ _ fun v w =>
    transpose_is_adjoint_closed_on E o t hA hS hv hw h _ _ (by simp) (by simp)

/-! #### lazy inverses: `jnp.linalg.inv(operator.as_matrix())` -/

/-- when the operand has an inverse on `ℝⁿ`, the matrix of `InverseOperator(o)` is a left inverse of the matrix of
`o` … -/
theorem asMatrix_inverse_mul (E : Env) (hE : EnvAdd E) (u : Nat) (o : Op) (ho : StructOK o)
    (hsq : Op.inS o = Op.outS o) (h : ∃ g, IsInvOn (inSize o) (den E o) g) :
    asMatrix E hE (.wrap u .inverse o) (inSize o) (inSize o) * asMatrix E hE o (inSize o) (inSize o) = 1 := by
  have hio : outSize o = inSize o := by unfold inSize outSize; rw [hsq]
  have : toLinearMapN E hE (.wrap u .inverse o) (inSize o) (inSize o) ∘ₗ
      toLinearMapN E hE o (inSize o) (inSize o) = LinearMap.id := by
    apply LinearMap.ext
    intro v
    rw [LinearMap.comp_apply, toLinearMapN_apply, toLinearMapN_apply,
      ofFn_toFn _ _ (by rw [den_length E o ho, hio]), den_wrap_uid,
      (invertibleK_inverse E o ho hsq h).1 _ (by simp), toFn_ofFn]
    rfl
  rw [asMatrix, asMatrix, ← C04.composition_matrix, this]
  exact C04.identity_override

/-- … when it has none, it is the zero matrix -/
theorem asMatrix_inverse_singular (E : Env) (hE : EnvAdd E) (u : Nat) (o : Op)
    (h : ¬ ∃ g, IsInvOn (inSize o) (den E o) g) (n m : Nat) :
    asMatrix E hE (.wrap u .inverse o) n m = 0 := by
  have : toLinearMapN E hE (.wrap u .inverse o) n m = 0 := by
    apply LinearMap.ext
    intro v
    rw [toLinearMapN_apply, den]
    unfold chooseInv
    rw [dif_neg h]
    funext i
    simp [toFn]
  rw [asMatrix, this, map_zero]

/-- an operand whose dense matrix is invertible has an inverse on `ℝⁿ` -/
theorem isInvOn_of_isUnit_det (E : Env) (hE : EnvAdd E) (o : Op) (ho : StructOK o) (hsq : Op.inS o = Op.outS o)
    (h : IsUnit (asMatrix E hE o (inSize o) (inSize o)).det) : ∃ g, IsInvOn (inSize o) (den E o) g := by
  have hio : outSize o = inSize o := by unfold inSize outSize; rw [hsq]
  set n := inSize o with hn
  set M := asMatrix E hE o n n with hM
  have hf : ∀ x : V, x.length = n → den E o x = List.ofFn (M *ᵥ toFn n x) :=
    fun x hx => den_eq_asMatrix_mulVec_list E hE o ho n n hio x hx
  refine ⟨fun x => List.ofFn (M⁻¹ *ᵥ toFn n x), fun x hx => ⟨by simp, ?_, ?_⟩, fun a x _ => ?_⟩
  · rw [hf _ (by simp), toFn_ofFn, Matrix.mulVec_mulVec, Matrix.mul_nonsing_inv _ h, Matrix.one_mulVec,
      ofFn_toFn n x hx]
  · beta_reduce
    rw [hf x hx, toFn_ofFn, Matrix.mulVec_mulVec, Matrix.nonsing_inv_mul _ h, Matrix.one_mulVec,
      ofFn_toFn n x hx]
  · beta_reduce
    rw [toFn_smul, Matrix.mulVec_smul, List.map_ofFn]
    rfl

/-- **C04, lazy inverses, closed: the dense matrix of `InverseOperator(o)` is the inverse `(as_matrix o)⁻¹` of the
dense matrix of `o`** — Mathlib's `⁻¹`, which is the zero matrix for a singular matrix, exactly as the lazy inverse
of a singular operand denotes the zero map.  NO invertibility hypothesis. -/
theorem asMatrix_inverse (E : Env) (hE : EnvAdd E) (u : Nat) (o : Op) (ho : StructOK o)
    (hsq : Op.inS o = Op.outS o) :
    asMatrix E hE (.wrap u .inverse o) (inSize o) (inSize o) = (asMatrix E hE o (inSize o) (inSize o))⁻¹ := by
  by_cases h : ∃ g, IsInvOn (inSize o) (den E o) g
  · exact (Matrix.inv_eq_left_inv (asMatrix_inverse_mul E hE u o ho hsq h)).symm
  · rw [asMatrix_inverse_singular E hE u o h, Matrix.nonsing_inv_apply_not_isUnit]
    exact fun hu => h (isInvOn_of_isUnit_det E hE o ho hsq hu)

/-- an operand has an inverse on `ℝⁿ` iff its dense matrix is invertible -/
theorem isInvOn_iff_isUnit_det (E : Env) (hE : EnvAdd E) (o : Op) (ho : StructOK o) (hsq : Op.inS o = Op.outS o) :
    (∃ g, IsInvOn (inSize o) (den E o) g) ↔ IsUnit (asMatrix E hE o (inSize o) (inSize o)).det :=
  ⟨fun h => Matrix.isUnit_det_of_left_inverse (asMatrix_inverse_mul E hE 0 o ho hsq h),
   isInvOn_of_isUnit_det E hE o ho hsq⟩

/-! #### non-vacuity of `EnvAdd`: every environment of matrices -/

theorem matEnv_add (N : Nat) (W : Nat → Matrix (Fin N) (Fin N) ℝ) : EnvAdd (matEnv N W) := by
  refine ⟨fun u x y _ => ?_, fun u x y _ => ?_⟩
  · show List.ofFn (W u *ᵥ toFn N (vadd x y)) = vadd (List.ofFn (W u *ᵥ toFn N x)) (List.ofFn (W u *ᵥ toFn N y))
    rw [toFn_vadd, Matrix.mulVec_add, ofFn_add]
  · show List.ofFn ((W u)ᵀ *ᵥ toFn N (vadd x y)) =
      vadd (List.ofFn ((W u)ᵀ *ᵥ toFn N x)) (List.ofFn ((W u)ᵀ *ᵥ toFn N y))
    rw [toFn_vadd, Matrix.mulVec_add, ofFn_add]

end Bridge

/-! ### 5. a concrete example: `IndexOperator([1, 1]) ∘ DiagonalOperator([2, 3, 5])` on `ℝ³` -/

namespace LinExamples
open Examples Matrix

/-- a diagonal on vectors of length 3 -/
def diagQ : Params := { inS := idxP.inS, outS := idxP.inS, vals := ⟨[3], [2, 3, 5]⟩, ints := [[0]] }

/-- `Index ∘ Diagonal`: from vectors of length 3 to vectors of length 2 (the index operator repeats an index) -/
def exL : Op := .comp 1 [.leaf 4 .index idxP, .leaf 5 .diagonal diagQ]

theorem exL_ok : StructOK exL := by
  simp only [exL, StructOK, WTExpr, WTList, Chain]
  exact ⟨by simp, ⟨trivial, trivial, trivial⟩, rfl, trivial⟩

theorem exL_sizes : inSize exL = 3 ∧ outSize exL = 2 := by decide

/-- application is additive -/
example (E : Env) (hE : EnvAdd E) (x y : V) (hx : x.length = 3) (hy : y.length = 3) :
    den E exL (List.zipWith (· + ·) x y) = List.zipWith (· + ·) (den E exL x) (den E exL y) :=
  den_additive E hE exL exL_ok x y hx hy

/-- application is the dense matrix times the flattened input -/
example (E : Env) (hE : EnvAdd E) (v : Fin 3 → ℝ) :
    den E exL (List.ofFn v) = List.ofFn (asMatrix E hE exL 3 2 *ᵥ v) :=
  den_eq_asMatrix_mulVec E hE exL exL_ok 3 2 rfl v

/-- the matrix of the composition is the product of the matrices -/
example (E : Env) (hE : EnvAdd E) :
    asMatrix E hE exL 3 2 = asMatrix E hE (.leaf 4 .index idxP) 3 2 * asMatrix E hE (.leaf 5 .diagonal diagQ) 3 3 :=
  asMatrix_comp E hE 1 _ _ (StructOK_leaf _ _ _) 3 3 2 rfl

theorem hposI : Index.indexPositions [3] [.iarr [2] [1, 1]] = .ok ([2], [1, 1]) := by decide

theorem den_idx (E : Env) (a b c : ℝ) : den E (.leaf 4 .index idxP) [a, b, c] = [b, b] := by
  rw [den]
  simp [leafDen, idxP, squareLeaf, perLeaf, chunks, headChunk, fit, List.takeD, gatherLeaf, hposI, Index.gather,
    Struct.size, LeafS.size, prodNat]

theorem den_diagQ (E : Env) (a b c : ℝ) : den E (.leaf 5 .diagonal diagQ) [a, b, c] = [2 * a, 3 * b, 5 * c] := by
  obtain ⟨y, hy, _, hyl, hyd⟩ := Diagonal.apply_vector true 3 ((castT diagQ.vals).data)
    (⟨[3], [a, b, c]⟩ : Tensor ℝ) 0 (by simp) rfl
  have hy' : Diagonal.apply true (castT diagQ.vals) (.seq [0]) (⟨[3], [a, b, c]⟩ : Tensor ℝ) = .ok y := hy
  have hdata : y.data = [2 * a, 3 * b, 5 * c] := by
    have h3 : y.data.length = 3 := by rw [hyl]; rfl
    match hd : y.data, h3 with
    | [p, q, r], _ =>
      have h0 := hyd 0 (by simp [prodNat])
      have h1 := hyd 1 (by simp [prodNat])
      have h2 := hyd 2 (by simp [prodNat])
      rw [hd] at h0 h1 h2
      simp [castT, Tensor.map, diagQ, unravel] at h0 h1 h2
      rw [h0, h1, h2]
  rw [den]
  simp [leafDen, diagQ, idxP, squareLeaf, perLeaf, chunks, headChunk, fit, List.takeD, diagLeaf,
    Struct.size, LeafS.size, prodNat] at hy' ⊢
  simp [hy', exData, hdata]

theorem den_exL (E : Env) (a b c : ℝ) : den E exL [a, b, c] = [3 * b, 3 * b] := by
  rw [exL, Laws.comp_law, app, app, app, den_diagQ, den_idx]

/-- **the dense matrix of the example**, computed column by column (the generic `as_matrix()` recipe) -/
theorem asMatrix_exL (E : Env) (hE : EnvAdd E) : asMatrix E hE exL 3 2 = !![0, 3, 0; 0, 3, 0] := by
  ext i j
  rw [asMatrix_apply]
  fin_cases i <;> fin_cases j <;> simp [unitVec, List.range_succ, den_exL]

end LinExamples


end ListSem
end Furax
