/-
The list denotation (FuraxProofs/Sem/ListSem.lean) packaged into the framework, and the CLOSED soundness theorem
of `reduce()`:

* `listOpSem E : OpSem V`, `listArithSem E : ArithSem V`  — `den := den E`, `mem s x := x.length = s.size`,
  `smul := vsmul`, `add := vadd`, `zero := []`, `invertible := invertibleG E`;
* `listLeafOK`           — validity of the leaf parameters, class by class (what the Python constructors accept);
  `toeplitzOK` — a Toeplitz leaf, batched band or not (the ones the denotation interprets by the kernel);
* `listRuleLaws E : RuleLaws (listArithSem E)`, `listContainerLaws E : ContainerLaws …`;
* `reduce_sound_closed`, `reduceTop_sound_closed` — no semantic hypothesis is left: only the syntactic
  well-formedness of the input expression and the environment `E` of the uninterpreted leaves;
* non-vacuity: concrete well-formed expressions that `reduceTop` rewrites.
-/
import FuraxProofs.Sem.ListSemBasic
import FuraxProofs.Sem.LeafHom
import FuraxProofs.Sem.LeafLaws
import FuraxProofs.Sem.ContainerLawsList
import FuraxProofs.Sem.StokesLaws
import FuraxProofs.Sem.IndexMultLaw
import FuraxProofs.Lemmas.ReduceSound
namespace Furax
namespace ListSem
open Op

/-! ### 1. the semantics -/

/-- the list denotation is an `OpSem` (the real structure of FuraxProofs/Lemmas/Nary.lean) -/
noncomputable def listOpSem (E : Env) : OpSem V where
  den := den E
  mem := mem
  smul := vsmul
  honest := fun o x ho hx => Laws.honest E o ho x hx
  smul_one := Laws.smul_one
  smul_smul := Laws.smul_smul
  mem_smul := Laws.mem_smul
  identity_law := Laws.identity_law E
  homothety_law := Laws.homothety_law E
  homogeneous := fun o a x _ _ => Laws.homogeneous E (leafHom E) o a x

/-- the list denotation is an `ArithSem` (the real structure of FuraxProofs/Lemmas/ArithSound.lean); an operand is
`invertible` when each lazy-inverse wrapper the constructors can build around it denotes a two-sided inverse
(`invertibleG`) -/
noncomputable def listArithSem (E : Env) : ArithSem V where
  toOpSem := listOpSem E
  add := vadd
  zero := []
  add_assoc := Laws.add_assoc
  zero_add := Laws.zero_add
  comp_law := fun u ops x => Laws.comp_law_sem E (listOpSem E).toSem rfl u ops x
  add_law := Laws.add_law E
  add_zero := Laws.add_zero
  smul_sum := Laws.smul_sum
  invertible := invertibleG E
  inv_left := fun u k o hi hk hq x hx => inv_leftG E u k o hi hk hq x hx
  inv_right := fun u k o hi hk hq x hx => inv_rightG E u k o hi hk hq x hx

@[simp] theorem listArithSem_den (E : Env) : (listArithSem E).den = den E := rfl
@[simp] theorem listArithSem_mem (E : Env) : (listArithSem E).mem = mem := rfl
@[simp] theorem listArithSem_invertible (E : Env) : (listArithSem E).invertible = invertibleG E := rfl

theorem listArithSem_mem_iff (E : Env) (s : Struct) (x : V) : (listArithSem E).mem s x ↔ mem s x := Iff.rfl

/-! ### 2. validity of the leaf parameters -/

/-! #### what the firing conditions of `TransposeIndexRule` and the success of NumPy indexing already imply -/

/-- **the index tuple is in the fragment as soon as `TransposeIndexRule` fires**: at most one indexed axis and an
integer array at `indices[axis]` leave only full slices and the (first) ellipsis for the other entries -/
theorem frag_of_rule (idx : List IdxEntry) (axis : Int) (sh : List Nat) (vals : List Int)
    (hlen1 : (indexedAxes idx).length ≤ 1) (hget : pyGet? idx axis = some (.iarr sh vals)) :
    ∀ e ∈ idx, fragEntry e := by
  obtain ⟨t, ht, hidt⟩ : ∃ t, ∃ _ : t < idx.length, idx[t] = .iarr sh vals := by
    unfold pyGet? at hget
    simp only at hget
    by_cases hj : (if axis < 0 then axis + (idx.length : Int) else axis) < 0
    · rw [if_pos hj] at hget
      exact absurd hget (by simp)
    · rw [if_neg hj] at hget
      obtain ⟨hlt, heq⟩ := List.getElem?_eq_some_iff.mp hget
      exact ⟨_, hlt, heq⟩
  have hIA : indexedAxes idx
      = ((List.range (min (idx.idxOf .ellipsis) idx.length)).filter
          fun a => !((idx.getD a .ellipsis).isFullSlice)).map (fun (a : Nat) => Int.ofNat a)
        ++ ((List.range idx.length).filter
          fun a => idx.idxOf .ellipsis < a && !((idx.getD a .ellipsis).isFullSlice)).map
            (fun (a : Nat) => Int.ofNat a - Int.ofNat idx.length) := rfl
  generalize hbefore : (List.range (min (idx.idxOf .ellipsis) idx.length)).filter
      (fun a => !((idx.getD a .ellipsis).isFullSlice)) = before at hIA
  generalize hafter : (List.range idx.length).filter
      (fun a => decide (idx.idxOf .ellipsis < a) && !((idx.getD a .ellipsis).isFullSlice)) = after at hIA
  have hbn : before.Nodup := by rw [← hbefore]; exact List.Nodup.filter _ List.nodup_range
  have han : after.Nodup := by rw [← hafter]; exact List.Nodup.filter _ List.nodup_range
  have hlen : before.length + after.length ≤ 1 := by
    rw [hIA] at hlen1; simpa using hlen1
  -- positions of entries that are neither a full slice nor the first ellipsis are listed
  have hmem : ∀ a (ha : a < idx.length), (idx[a]).isFullSlice = false → a ≠ idx.idxOf .ellipsis →
      a ∈ before ∨ a ∈ after := by
    intro a ha hnf hne
    have hNF : (!((idx.getD a .ellipsis).isFullSlice)) = true := by
      rw [List.getD_eq_getElem _ _ ha, hnf]; rfl
    rcases Nat.lt_or_gt_of_ne hne with h | h
    · left
      rw [← hbefore, List.mem_filter, List.mem_range]
      exact ⟨by omega, hNF⟩
    · right
      rw [← hafter, List.mem_filter, List.mem_range]
      refine ⟨ha, ?_⟩
      simp only [Bool.and_eq_true, decide_eq_true_eq]
      exact ⟨h, hNF⟩
  have htne : t ≠ idx.idxOf .ellipsis := by
    intro e
    have := List.getElem_idxOf (e ▸ ht : idx.idxOf IdxEntry.ellipsis < idx.length)
    simp only [← e] at this
    rw [hidt] at this
    exact absurd this (by simp)
  have htm := hmem t ht (by rw [hidt]; rfl) htne
  intro e he
  obtain ⟨a, ha, rfl⟩ := List.getElem_of_mem he
  by_cases hfs : (idx[a]).isFullSlice = true
  · exact Or.inl ((isFullSlice_iff _).mp hfs)
  · by_cases hae : a = idx.idxOf .ellipsis
    · refine Or.inr (Or.inl ?_)
      have := List.getElem_idxOf (hae ▸ ha : idx.idxOf IdxEntry.ellipsis < idx.length)
      simp only [← hae] at this
      exact this
    · by_cases hat : a = t
      · subst hat
        exact Or.inr (Or.inr ⟨sh, vals, hidt⟩)
      · exfalso
        have ham := hmem a ha (by simpa using hfs) hae
        rcases htm with h1 | h1 <;> rcases ham with h2 | h2
        · have := two_le_length_of_mem hbn h2 h1 hat; omega
        · have := one_le_length_of_mem h1; have := one_le_length_of_mem h2; omega
        · have := one_le_length_of_mem h1; have := one_le_length_of_mem h2; omega
        · have := two_le_length_of_mem han h2 h1 hat; omega

/-- NumPy indexing succeeds only with at most one ellipsis and no more entries than dimensions -/
theorem indexPositions_ok_facts {shape : List Nat} {idx : List IdxEntry} {r : List Nat × List Nat}
    (h : Index.indexPositions shape idx = .ok r) :
    idx.count .ellipsis ≤ 1 ∧ (idx.map Index.consumed).sum ≤ shape.length := by
  unfold Index.indexPositions at h
  cases hs : Index.toSels shape idx with
  | error e => simp [hs, bind, Except.bind] at h
  | ok sels =>
    unfold Index.toSels at hs
    simp only at hs
    by_cases h1 : (idx.filter (· == IdxEntry.ellipsis)).length > 1
    · rw [if_pos h1] at hs
      exact absurd hs (by simp)
    · rw [if_neg h1] at hs
      by_cases h2 : (idx.map Index.consumed).sum > shape.length
      · rw [if_pos h2] at hs
        exact absurd hs (by simp)
      · refine ⟨?_, by omega⟩
        rw [List.count_eq_countP, List.countP_eq_length_filter]
        omega

/-- on the fragment every entry but the ellipsis consumes one dimension -/
theorem consumed_sum_frag (es : List IdxEntry) (h : ∀ e ∈ es, fragEntry e) :
    (es.map Index.consumed).sum + es.count .ellipsis = es.length := by
  induction es with
  | nil => rfl
  | cons e es ih =>
    have := ih (fun e he => h e (List.mem_cons_of_mem _ he))
    rcases h e List.mem_cons_self with rfl | rfl | ⟨sh, v, rfl⟩
    · simp [Index.consumed]; omega
    · simp [Index.consumed]; omega
    · simp [Index.consumed]; omega

theorem pyGet?_mem {α : Type} (l : List α) (i : Int) (x : α) (h : pyGet? l i = some x) : x ∈ l := by
  unfold pyGet? at h
  simp only at h
  by_cases hj : (if i < 0 then i + (l.length : Int) else i) < 0
  · rw [if_pos hj] at h
    exact absurd h (by simp)
  · rw [if_neg hj] at h
    exact List.mem_of_getElem? h

theorem forall₂_exists_right {α β : Type} {R : α → β → Prop} {a : List α} {b : List β}
    (h : List.Forall₂ R a b) : ∀ x ∈ a, ∃ y ∈ b, R x y := by
  induction h with
  | nil => intro x hx; simp at hx
  | cons hr _ ih =>
    intro x hx
    rcases List.mem_cons.mp hx with rfl | hx
    · exact ⟨_, List.mem_cons_self, hr⟩
    · obtain ⟨y, hy, hxy⟩ := ih x hx
      exact ⟨y, List.mem_cons_of_mem _ hy, hxy⟩

theorem forall₂_exists_left {α β : Type} {R : α → β → Prop} {a : List α} {b : List β}
    (h : List.Forall₂ R a b) : ∀ y ∈ b, ∃ x ∈ a, R x y := by
  induction h with
  | nil => intro x hx; simp at hx
  | cons hr _ ih =>
    intro y hy
    rcases List.mem_cons.mp hy with rfl | hy
    · exact ⟨_, List.mem_cons_self, hr⟩
    · obtain ⟨x, hx, hxy⟩ := ih y hy
      exact ⟨x, List.mem_cons_of_mem _ hx, hxy⟩

/-! #### the validity predicates -/

/-- **the two side conditions of `TransposeIndexRule` that are not consequences of its firing conditions and of
`indexOK`**:
* (well-formed arrays) every integer array of the index tuple has as many values as its shape says;
* (in-bounds values) the values of an integer array sitting on an indexed axis are valid Python indices
  (`-n ≤ i < n`) into that axis of every input leaf.
JAX arrays are well formed by construction; out-of-bounds indices are what `indexPositions` (NumPy semantics)
refuses with an `IndexError` whenever the result is not empty. -/
def indexArraysOK (p : Params) : Prop :=
  (∀ sh vals, IdxEntry.iarr sh vals ∈ p.idx → vals.length = prodNat sh) ∧
  (∀ axis ∈ indexedAxes p.idx, ∀ sh vals, pyGet? p.idx axis = some (.iarr sh vals) →
    ∀ l ∈ p.inS.leaves, ∀ n, pyGet? l.shape axis = some n → ∀ i ∈ vals, -(n : Int) ≤ i ∧ i < n)

/-- `DiagonalOperator(diagonal, axis_destination=axes, in_structure=…)`: the strict broadcasting product
(`Diagonal.apply true`) succeeds on every leaf of the input structure and keeps the leaf's shape -/
def diagonalOK (p : Params) : Prop :=
  ∀ l ∈ p.inS.leaves, ∀ c : V, ∃ y,
    Diagonal.apply true (castT p.vals) (.seq (p.ints.getD 0 [])) (⟨l.shape, c⟩ : Tensor ℝ) = .ok y ∧
    y.shape = l.shape

/-- `SymmetricBandToeplitzOperator(band_values, in_structure)`: `band_values` is a well-formed array of shape
`bs ++ [K]` — `K ≥ 1` bands along the last axis, `bs` the batch axes (`bs = []`: one band for all rows; in practice
`bs = [ndet]`: one band row per detector) — with as many values as the shape says; every leaf of the input structure
has rank `≥ 1` (the operator acts along the last axis of every leaf) and **the batch axes `bs` broadcast TO the
leading axes of the leaf** (`Bc`, NumPy rules, right-aligned: the rank of `bs` is at most that of the leading axes and
every dimension of `bs` is `1` or the dimension it is aligned with).  This is what `jnp.vectorize` needs for `mv` to
return an array of the shape of its input: with incompatible dimensions it raises, and when `bs` only broadcasts
WITH the leading axes (a longer `bs`, or a dimension `> 1` facing a `1`) `mv` returns a LARGER array than
`in_structure` says (observed on the Python code, see REPORT.md).  (The Python `mv` only works when `in_structure`
is a bare array — one leaf; the denotation and this predicate are stated leaf by leaf for any number of leaves, the
one-leaf structure being the case Python reaches.)  `K` may exceed the length of the last axis.  The
method string (`p.str`) and the FFT size (`p.ints`) do not matter: all the evaluation methods compute the same
banded product (C09, FuraxProofs/Sem/ToeplitzList.lean). -/
def toeplitzOK (p : Params) : Prop :=
  ∃ bs K, 1 ≤ K ∧ p.vals.shape = bs ++ [K] ∧ p.vals.data.length = prodNat bs * K ∧
    ∀ l ∈ p.inS.leaves, l.shape ≠ [] ∧ Bc bs l.shape.dropLast

/-- the validity of a Toeplitz leaf with an UN-BATCHED band (`band_values.shape = [K]`), as it was stated before the
denotation interpreted batched bands: a special case of `toeplitzOK` (`toeplitzUnbatchedOK_iff`) -/
def toeplitzUnbatchedOK (p : Params) : Prop :=
  (∃ K, 1 ≤ K ∧ p.vals.shape = [K] ∧ p.vals.data.length = K) ∧ ∀ l ∈ p.inS.leaves, l.shape ≠ []

theorem Bc_nil (S : List Nat) : Bc [] S := ⟨Nat.zero_le _, fun j hj => absurd hj (Nat.not_lt_zero j)⟩

theorem toeplitzOK_of_unbatched {p : Params} (h : toeplitzUnbatchedOK p) : toeplitzOK p := by
  obtain ⟨⟨K, hK, hs, hd⟩, hr⟩ := h
  exact ⟨[], K, hK, by simpa using hs, by simpa [prodNat] using hd, fun l hl => ⟨hr l hl, Bc_nil _⟩⟩

/-- the un-batched validity is the general one plus "the band array has rank 1" -/
theorem toeplitzUnbatchedOK_iff (p : Params) : toeplitzUnbatchedOK p ↔ toeplitzOK p ∧ p.vals.shape.length = 1 := by
  constructor
  · intro h
    refine ⟨toeplitzOK_of_unbatched h, ?_⟩
    obtain ⟨⟨K, _, hs, _⟩, _⟩ := h
    rw [hs]; rfl
  · rintro ⟨⟨bs, K, hK, hs, hd, hr⟩, h1⟩
    have hbs : bs = [] := by
      rw [hs, List.length_append] at h1
      exact List.eq_nil_of_length_eq_zero (by simpa using h1)
    subst hbs
    exact ⟨⟨K, hK, by simpa using hs, by simpa [prodNat] using hd⟩, fun l hl => (hr l hl).1⟩

theorem toeplitzOK.toepK {p : Params} (h : toeplitzOK p) : ∃ K, 1 ≤ K ∧ toepK p.vals = some K := by
  obtain ⟨bs, K, hK, hs, _⟩ := h
  exact ⟨K, hK, by simp [ListSem.toepK, hs]⟩

/-- **validity of the leaf parameters**, class by class: what the Python constructors accept.  The classes no rule
looks into (identity, scalar, broadcasting diagonal, observation matrix, opaque, and dense einsum blocks with one
block array per leaf) are not constrained; a dense einsum leaf with ONE block array shared by all the leaves
(`denseShared`: the case the denotation interprets by the einsum kernel) is `denseOK` (FuraxProofs/Sem/DenseLeaf.lean:
the subscripts parse, the transposer accepts them, every leaf fits its term exactly); a
Toeplitz leaf whose band array has a last axis (rank `≥ 1`, batched or not: the case the denotation interprets by the
kernel, `toepK`) is `toeplitzOK`; the degenerate one with a rank-0 band array (left to the environment; Python
refuses it) is not constrained. -/
def listLeafOK : LeafCls → Params → Prop
  | .toeplitz, p => toepK p.vals ≠ none → toeplitzOK p
  | .moveAxis, p => moveAxisOK p
  | .ravel, p => reshapeOK p
  | .reshape, p => reshapeOK p
  | .index, p => indexOK p ∧ indexArraysOK p
  | .pack, p => packOK p
  | .qurot, p => stokesOK .qurot p
  | .hwp, p => stokesOK .hwp p
  | .polarizer, p => stokesOK .polarizer p
  | .diagonal, p => diagonalOK p
  | .dense, p => denseShared p = true → denseOK p
  | _, _ => True

theorem listLeafOK_identity (s : Struct) : listLeafOK .identity { inS := s, outS := s } := trivial

theorem listLeafOK_homothety (v : Rat) (s : Struct) :
    listLeafOK .homothety { inS := s, outS := s, vals := Tensor.scalar v } := trivial

theorem listLeafOK_toeplitz {p : Params} (h : toeplitzOK p) : listLeafOK .toeplitz p := fun _ => h

/-! ### 3. the rule laws -/

/-- a valid rotation is invertible: its transpose is its inverse (orthogonality), which `InverseOperator` finds
and `QURotationTransposeOperator` is -/
theorem qurot_invertibleG (E : Env) (u : Nat) (p : Params) (h : stokesOK .qurot p) :
    invertibleG E (.leaf u .qurot p) := by
  refine invertibleG_of E _ (StructOK_leaf _ _ _) rfl ⟨_, qurot_isInvOn E (leafHom E) u p h⟩ (fun _ => ?_)
    (fun u' p' he => by cases he)
  refine ⟨fun x hx => (qurot_inv_wrap E 0 u p h x hx).1, fun x hx => (qurot_inv_wrap E 0 u p h x ?_).2⟩
  exact hx

/-- **`TransposeIndexRule`** from `indexOK`, `indexArraysOK` and the rule's own firing conditions -/
theorem index_mult_closed (E : Env) (u uo : Nat) (p : Params) (axis : Int) (shape sh : List Nat)
    (vals : List Int) (sizeMax : Nat) (hp : indexOK p ∧ indexArraysOK p)
    (hlen1 : (indexedAxes p.idx).length ≤ 1) (hhead : (indexedAxes p.idx).head? = some axis)
    (hs1 : ((p.inS.leaves.map (·.shape)).eraseDups).length ≤ 1)
    (hs2 : ((p.inS.leaves.map (·.shape)).eraseDups).head? = some shape)
    (hget : pyGet? p.idx axis = some (.iarr sh vals)) (hsize : pyGet? shape axis = some sizeMax) :
    diagonalOK (transposeIndexDiag p axis sizeMax vals) ∧
    ∀ x, mem p.inS x → den E (.leaf 0 .diagonal (transposeIndexDiag p axis sizeMax vals)) x =
      den E (.wrap u .transpose (.leaf uo .index p)) (den E (.leaf uo .index p) x) := by
  obtain ⟨⟨_, hfa⟩, hwf, hib⟩ := hp
  have hshape := all_eq_of_eraseDups _ _ hs1 hs2
  -- a leaf of shape `shape`
  obtain ⟨l0, hl0, hl0s⟩ : ∃ l ∈ p.inS.leaves, l.shape = shape := by
    have hm : shape ∈ (p.inS.leaves.map (·.shape)).eraseDups := List.mem_of_mem_head? hs2
    obtain ⟨l, hl, hls⟩ := List.mem_map.mp (List.mem_eraseDups.mp hm)
    exact ⟨l, hl, hls⟩
  obtain ⟨lo0, _, pos0, hpos0, _⟩ := forall₂_exists_right hfa l0 hl0
  rw [hl0s] at hpos0
  obtain ⟨hell, hused⟩ := indexPositions_ok_facts hpos0
  have hfrag := frag_of_rule p.idx axis sh vals hlen1 hget
  have hsum := consumed_sum_frag p.idx hfrag
  have hok : indexMultOK p axis shape sh vals sizeMax := by
    refine indexMultOK_of_rule p axis shape sh vals sizeMax hfrag hell (by omega) hlen1 hhead hs1 hs2 hget hsize
      (hwf sh vals (pyGet?_mem _ _ _ hget)) ?_ hfa.length_eq.symm ?_
    · refine hib axis (List.mem_of_mem_head? hhead) sh vals hget l0 hl0 sizeMax ?_
      rw [hl0s]; exact hsize
    · intro lo hlo
      obtain ⟨li, hli, pos, hpos, _⟩ := forall₂_exists_left hfa lo hlo
      rw [hshape li hli] at hpos
      exact ⟨pos, hpos⟩
  exact index_mult_law E u uo p axis shape sh vals sizeMax hok

/-- **the semantic leaf laws of the thirteen binary rules hold for the list denotation** -/
noncomputable def listRuleLaws (E : Env) : RuleLaws (listArithSem E) where
  leafOK := listLeafOK
  ok_identity := listLeafOK_identity
  ok_homothety := listLeafOK_homothety
  qurot_inv := fun u p hp => qurot_invertibleG E u p hp
  moveaxis_pair := fun ul pl ur pr hl hr h01 h10 hio => moveaxis_pair E ul pl ur pr hl hr h01 h10 hio
  reshape_pair := fun u uo c p hc hp => by
    refine reshape_pair E u uo c p hc ?_
    rcases hc with rfl | rfl <;> exact hp
  pack_pair := fun u uo p hp => pack_pair E u uo p hp
  index_pair := fun u uo p hp hf => index_pair E u uo p hp.1 hf
  index_mult := fun u uo p axis shape sh vals sizeMax hp _ hlen1 hhead hs1 hs2 hget hsize =>
    index_mult_closed E u uo p axis shape sh vals sizeMax hp hlen1 hhead hs1 hs2 hget hsize
  rot_rot := fun ul pl ur pr a hl hr hS ha => rot_rot E ul pl ur pr a hl hr hS ha
  rot_rotT := fun ul pl uw ur pr a hl hr hS ha => rot_rotT E ul pl uw ur pr a hl hr hS ha
  rotT_rot := fun uw ul pl ur pr a hl hr hS ha => rotT_rot E uw ul pl ur pr a hl hr hS ha
  rotT_rotT := fun uw ul pl uw' ur pr a hl hr hS ha => rotT_rotT E uw ul pl uw' ur pr a hl hr hS ha
  rot_hwp := fun uw ul pl ur pr hl hr hS => rot_hwp E uw ul pl ur pr hl hr hS
  rotT_hwp := fun uw ul pl ur pr hl hr hS => rotT_hwp E uw ul pl ur pr hl hr hS
  polarizer_hwp := fun ul pl ur pr hl hr hS => polarizer_hwp E ul pl ur pr hl hr hS
  block_law := fun lk rk res ht ul ur u td lops rops prods _ hrw _ hlok hrok hne hrel hlr x hx =>
    block_law_list E (lenLaw E) lk rk res ht ul ur u td lops rops prods hlok hrok hne
      ((ProdRelL_iff E (listArithSem E) rfl (listArithSem_mem_iff E) lops rops prods).mp hrel)
      ((StructOKList_iff rops).mp hrw.structOK) hlr x hx

@[simp] theorem listRuleLaws_leafOK (E : Env) : (listRuleLaws E).leafOK = listLeafOK := rfl

/-! ### 4. the container laws -/

theorem listContainerLaws (E : Env) : ContainerLaws (listArithSem E) (listRuleLaws E) where
  cont_congr := fun u u' k td ops ops' hk hne _ _ hok hrel x hx =>
    cont_congr_list E u u' k td ops ops' hk hne hok
      ((CongRelL_iff E (listArithSem E) rfl (listArithSem_mem_iff E) ops ops').mp hrel) x hx
  blockdiag_identities := fun u td ops hne htd hid x hx =>
    blockdiag_identities_list E u td ops hne htd hid x hx
  index_noaxes := fun u p hp h0 => index_noaxes E u p hp.1 h0
  reshape_id := fun u c p hc _ hio => reshape_id E u c p hc hio

/-! ### 5. the closed theorems -/

/-- **Soundness of `reduce()`, closed.**  For every environment `E` of the uninterpreted leaves, every amount of
fuel and every expression `o` whose leaves passed their constructors' validation (`listLeafOK`), whose wrappers
and containers are well formed and whose lazy inverses wrap invertible operands (`invertibleG E`): if
`reduce fuel o` returns `r`, then `r` is again such an expression, has the structures of `o`, and computes the
same vector as `o` on every vector of the input size.  No semantic hypothesis is left. -/
theorem reduce_sound_closed (E : Env) (fuel : Nat) (o r : Op)
    (hw : WTExpr (listArithSem E).invertible listLeafOK o) (h : reduce fuel o = .ok r) :
    WTExpr (listArithSem E).invertible listLeafOK r ∧ Op.inS r = Op.inS o ∧ Op.outS r = Op.outS o ∧
    ∀ x : List ℝ, x.length = (Op.inS o).size → den E r x = den E o x :=
  reduce_sound (listArithSem E) (listRuleLaws E) (listContainerLaws E) fuel o r hw h

/-- the same for the driver's entry point -/
theorem reduceTop_sound_closed (E : Env) (o r : Op)
    (hw : WTExpr (listArithSem E).invertible listLeafOK o) (h : reduceTop o = .ok r) :
    WTExpr (listArithSem E).invertible listLeafOK r ∧ Op.inS r = Op.inS o ∧ Op.outS r = Op.outS o ∧
    ∀ x : List ℝ, x.length = (Op.inS o).size → den E r x = den E o x :=
  reduceTop_sound (listArithSem E) (listRuleLaws E) (listContainerLaws E) o r hw h

/-! ### 6. non-vacuity: well-formed expressions that `reduceTop` really rewrites

The model's `reduceTop` is computable, so the reduced forms are obtained by evaluation (`rfl`); the denotation is
not, and the equality of the denotations is an instance of `reduceTop_sound_closed`. -/

namespace Examples

def iqu : Struct := ⟨[.node "stokes:IQU" 3, .leaf, .leaf, .leaf], [⟨[2, 3], .f64⟩, ⟨[2, 3], .f64⟩, ⟨[2, 3], .f64⟩]⟩
def rotP : Params := { inS := iqu, outS := iqu, vals := ⟨[3], [0, 1 / 2, 1]⟩ }
def ex1 : Op := .comp 7 [.wrap 5 .qurotT (.leaf 3 .qurot rotP), .leaf 3 .qurot rotP]

theorem rotP_ok : stokesOK .qurot rotP := by
  refine ⟨⟨.IQU, rfl⟩, by decide, fun _ => ⟨rfl, by decide⟩, fun h => by cases h⟩

theorem ex1_wt (E : Env) : WTExpr (listArithSem E).invertible listLeafOK ex1 := by
  have hq : listLeafOK .qurot rotP := rotP_ok
  simp only [ex1, WTExpr, WTList, Chain, WrapOK, WrapCls.isLazy]
  refine ⟨by simp, ⟨⟨hq, fun _ => ⟨rfl, qurot_invertibleG E 3 rotP rotP_ok⟩, fun _ => rfl, by simp, by simp⟩, hq, trivial⟩,
    rfl, trivial⟩

theorem ex1_red : reduceTop ex1 = .ok (mkIdentity iqu) := by with_unfolding_all rfl

def idxP : Params := { inS := ⟨[.leaf], [⟨[3], .f64⟩]⟩, outS := ⟨[.leaf], [⟨[2], .f64⟩]⟩, idx := [.iarr [2] [1, 1]], flag := false }
def ex2 : Op := .comp 9 [.wrap 8 .transpose (.leaf 4 .index idxP), .leaf 4 .index idxP]

theorem idxP_ok : listLeafOK .index idxP := by
  refine ⟨⟨rfl, .cons ⟨[1, 1], by decide, by decide, fun h => by simp [idxP] at h, rfl⟩ .nil⟩, ?_, ?_⟩
  · intro sh vals h
    simp only [idxP, List.mem_singleton, IdxEntry.iarr.injEq] at h
    obtain ⟨rfl, rfl⟩ := h
    rfl
  · intro axis ha sh vals hget l hl n hn i hi
    have h0 : indexedAxes idxP.idx = [0] := by decide
    rw [h0, List.mem_singleton] at ha
    subst ha
    have h1 : pyGet? idxP.idx 0 = some (.iarr [2] [1, 1]) := by decide
    rw [h1] at hget
    simp only [Option.some.injEq, IdxEntry.iarr.injEq] at hget
    obtain ⟨rfl, rfl⟩ := hget
    simp only [idxP, List.mem_singleton] at hl
    subst hl
    have h2 : pyGet? [3] (0 : Int) = some 3 := by decide
    rw [h2] at hn
    cases hn
    simp only [List.mem_cons, List.not_mem_nil, or_false, or_self] at hi
    subst hi
    decide

theorem ex2_wt (E : Env) : WTExpr (listArithSem E).invertible listLeafOK ex2 := by
  simp only [ex2, WTExpr, WTList, Chain, WrapOK, WrapCls.isLazy]
  refine ⟨by simp, ⟨⟨idxP_ok, by simp, by simp, by simp, by simp⟩, idxP_ok, trivial⟩, rfl, trivial⟩

theorem ex2_red : reduceTop ex2 = .ok (.leaf 0 .diagonal
    { inS := idxP.inS, outS := idxP.inS, vals := ⟨[3], [0, 2, 0]⟩, ints := [[0]] }) := by rfl

def s1 : Struct := ⟨[.leaf], [⟨[2], .f64⟩]⟩
def s2 : Struct := ⟨[.leaf], [⟨[3], .f64⟩]⟩
def td2 : TreeDef := [.node "list" 2, .leaf, .leaf]
def opA : Op := .leaf 11 .opaque { inS := s1, outS := s2 }
def opB : Op := .leaf 12 .opaque { inS := s2, outS := s2 }
def opC : Op := .leaf 14 .opaque { inS := s1, outS := s1 }
def opD : Op := .leaf 15 .opaque { inS := s1, outS := s2 }
def ex3 : Op := .comp 20 [.cont 10 .blockRow td2 [opA, opB], .cont 13 .blockCol td2 [opC, opD]]

theorem ex3_wt (E : Env) : WTExpr (listArithSem E).invertible listLeafOK ex3 := by
  simp only [ex3, opA, opB, opC, opD, WTExpr, WTList, Chain, ContOK, listLeafOK]
  refine ⟨by simp, ⟨⟨by simp, ⟨trivial, trivial, trivial⟩, by decide, ?_⟩,
    ⟨by simp, ⟨trivial, trivial, trivial⟩, by decide, ?_⟩, trivial⟩, by decide, trivial⟩
  · intro o ho
    simp only [List.mem_cons, List.not_mem_nil, or_false] at ho
    rcases ho with rfl | rfl <;> rfl
  · intro o ho
    simp only [List.mem_cons, List.not_mem_nil, or_false] at ho
    rcases ho with rfl | rfl <;> rfl

theorem ex3_red : reduceTop ex3 = .ok (.cont 0 .add td2 [.comp 0 [opA, opC], .comp 0 [opB, opD]]) := by
  with_unfolding_all rfl

/-- the three rewrites are denotation preserving, by the closed theorem -/
theorem ex1_den (E : Env) (x : List ℝ) (hx : x.length = 18) : den E (mkIdentity iqu) x = den E ex1 x :=
  (reduceTop_sound_closed E ex1 _ (ex1_wt E) ex1_red).2.2.2 x hx

theorem ex2_den (E : Env) (x : List ℝ) (hx : x.length = 3) :
    den E (.leaf 0 .diagonal { inS := idxP.inS, outS := idxP.inS, vals := ⟨[3], [0, 2, 0]⟩, ints := [[0]] }) x
      = den E ex2 x :=
  (reduceTop_sound_closed E ex2 _ (ex2_wt E) ex2_red).2.2.2 x hx

theorem ex3_den (E : Env) (x : List ℝ) (hx : x.length = 2) :
    den E (.cont 0 .add td2 [.comp 0 [opA, opC], .comp 0 [opB, opD]]) x = den E ex3 x :=
  (reduceTop_sound_closed E ex3 _ (ex3_wt E) ex3_red).2.2.2 x hx

#print axioms ex1_den
#print axioms ex2_den
#print axioms ex3_den

end Examples

#print axioms reduce_sound_closed
#print axioms reduceTop_sound_closed
#print axioms listRuleLaws
#print axioms listContainerLaws

end ListSem
end Furax
