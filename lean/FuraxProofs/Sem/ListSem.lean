/-
A faithful denotation of operator expressions: every `Op` is a map on flat real vectors (`List ℝ`, the leaves of
the pytree concatenated, each leaf row-major), assembled from the SAME executable kernels the compiled driver
runs and the correspondence checks compare with furax (`Index.indexPositions` / `gather` / `scatterAdd`,
`Axes.moveaxis`, `Diagonal.apply`, `SV.rot` / `rotT` / `hwp` / `pol`), lifted leaf by leaf.

* `den E o`   — what `o.mv` computes;   `denT E o` — what `o.T.mv` computes (the adjoint map);
* `SymmetricBandToeplitzOperator` leaves (band array of shape `bs ++ [K]`, un-batched `bs = []` or batched, the
  batch axes broadcasting against the leading axes of the data as `jnp.vectorize` does) are interpreted by the
  verified kernel `Toeplitz.toep` (FuraxModel/Toeplitz.lean, property C09), row by row along the last axis of
  every leaf, each batch row with its own band row (`toepLeaf`, `toepBandAt`);
* `DenseBlockDiagonalOperator` leaves with ONE block array shared by all the leaves (`denseShared`: `Params.vals`
  holds it) are interpreted by the executable einsum kernel `Einsum.einsum2` (FuraxModel/EinsumEval.lean, property
  C14) applied to every leaf (`denseLeaf`); their transposes by the leaf `transposeOp` builds — rewritten subscripts,
  swapped structures, the same block array (`dualParams`, `denseLeafT`);
* leaf classes no reduction rule looks into (dense einsum blocks with one block array PER leaf, observation matrices,
  opaque operators; and the degenerate Toeplitz leaf whose band array has rank 0, which Python refuses) are
  interpreted by an environment `E` of arbitrary homogeneous maps, keyed by the Python identity;
* `InverseOperator(o)` denotes the inverse of `den o` when one exists (exact solver, assumption A4), the zero map
  otherwise; `DiagonalInverseOperator(D)` is the diagonal operator of `where(d != 0, 1/d, 0)`.

Every node normalises lengths (`fit`), so that `den E o x` has length `outSize o` whatever `x` is, for every
structurally well-formed `o` (`den_length`, FuraxProofs/Sem/ListSemBasic.lean).
Definitions only; the laws are proved in the sibling files.
-/
import FuraxModel.Dual
import FuraxModel.Index
import FuraxModel.Axes
import FuraxModel.Diagonal
import FuraxModel.Stokes
import FuraxModel.Toeplitz
import FuraxModel.EinsumEval
import Mathlib.Analysis.SpecialFunctions.Trigonometric.Basic
namespace Furax
namespace ListSem
open Op

abbrev V := List ℝ

/-- exactly `n` entries: truncate or pad with zeros -/
def fit (n : Nat) (x : V) : V := x.takeD n 0

/-- sum of vectors; the shorter one is padded (`[]` is the neutral element) -/
def vadd : V → V → V
  | [], b => b
  | a, [] => a
  | x :: a, y :: b => (x + y) :: vadd a b

def vsmul (a : Rat) (x : V) : V := x.map fun v => (a : ℝ) * v

/-- the first `n` entries (padded), and the rest -/
def headChunk (n : Nat) (x : V) : V := fit n (x.take n)

/-- split a flat vector into chunks of the given sizes -/
def chunks : List Nat → V → List V
  | [], _ => []
  | n :: ns, x => headChunk n x :: chunks ns (x.drop n)

/-- apply `f` leaf by leaf: input leaf `ins[k]` ↦ output leaf `outs[k]` -/
def perLeaf (f : LeafS → LeafS → V → V) (ins outs : List LeafS) (x : V) : V :=
  (((ins.zip outs).zip (chunks (ins.map LeafS.size) x)).map
    fun p => fit p.1.2.size (f p.1.1 p.1.2 p.2)).flatten

def exData : Except PyErr (Tensor ℝ) → V
  | .ok t => t.data
  | .error _ => []

def castT (t : Tensor Rat) : Tensor ℝ := t.map fun (q : Rat) => (q : ℝ)

/-! ### leaf kernels, one leaf at a time -/

def moveLeaf (src dst : List Int) (li _lo : LeafS) (x : V) : V := exData (Axes.moveaxis ⟨li.shape, x⟩ src dst)

def gatherLeaf (idx : List IdxEntry) (li _lo : LeafS) (x : V) : V :=
  match Index.indexPositions li.shape idx with
  | .ok (_, pos) => Index.gather pos x
  | .error _ => []

/-- the transpose of `gatherLeaf`: `y` lives on the OUTPUT leaf of the index operator, the result on its input leaf -/
def scatterLeaf (idx : List IdxEntry) (_lo li : LeafS) (y : V) : V :=
  match Index.indexPositions li.shape idx with
  | .ok (_, pos) => Index.scatterAdd li.size pos y
  | .error _ => []

def diagLeaf (strict : Bool) (vals : Tensor Rat) (axes : List Int) (li _lo : LeafS) (x : V) : V :=
  exData (Diagonal.apply strict (castT vals) (.seq axes) ⟨li.shape, x⟩)

def pinvT (t : Tensor Rat) : Tensor Rat := ⟨t.shape, Diagonal.pinvValues t.data⟩

/-! ### Stokes kernels: the leaves are the components, all of the same shape -/

def kindOf : Nat → Option StokesKind
  | 1 => some .I | 2 => some .QU | 3 => some .IQU | 4 => some .IQUV | _ => none

/-- the angle of sample `t` (angles broadcast to the leaf shape) -/
noncomputable def angleAt (angles : Tensor Rat) (shape : List Nat) (t : Nat) : ℝ :=
  ((castT angles).broadcastTo shape).data.getD t 0

/-- a sample-wise map of Stokes vectors, on the concatenated components -/
def stokesMap (k : StokesKind) (n : Nat) (g : Nat → SV ℝ → SV ℝ) (x : V) : V :=
  let ncomp := (SV.present k (default : SV ℝ)).length
  let comps := chunks (List.replicate ncomp n) x
  let sv (t : Nat) : SV ℝ := SV.ofPresent k (comps.map fun c => c.getD t 0) 0
  ((List.range ncomp).map fun c => (List.range n).map fun t => (SV.present k (g t (sv t))).getD c 0).flatten

noncomputable def rotG (angles : Tensor Rat) (shape : List Nat) (t : Nat) : SV ℝ → SV ℝ :=
  SV.rot (Real.cos (2 * angleAt angles shape t)) (Real.sin (2 * angleAt angles shape t))
noncomputable def rotTG (angles : Tensor Rat) (shape : List Nat) (t : Nat) : SV ℝ → SV ℝ :=
  SV.rotT (Real.cos (2 * angleAt angles shape t)) (Real.sin (2 * angleAt angles shape t))

/-- `LinearPolarizerOperator.mv`: Stokes components ↦ one detector leaf -/
noncomputable def polMap (k : StokesKind) (n : Nat) (x : V) : V :=
  let ncomp := (SV.present k (default : SV ℝ)).length
  let comps := chunks (List.replicate ncomp n) x
  (List.range n).map fun t => SV.pol (1 / 2 : ℝ) k (SV.ofPresent k (comps.map fun c => c.getD t 0) 0)

/-- its transpose: one detector leaf ↦ Stokes components -/
noncomputable def polTMap (k : StokesKind) (n : Nat) (y : V) : V :=
  let ncomp := (SV.present k (default : SV ℝ)).length
  ((List.range ncomp).map fun c => (List.range n).map fun t =>
    (SV.present k (⟨(1 / 2 : ℝ) * y.getD t 0, (1 / 2 : ℝ) * y.getD t 0, 0, 0⟩ : SV ℝ)).getD c 0).flatten

/-! ### the symmetric band Toeplitz kernel: one leaf, row by row along its last axis -/

/-- the number of bands `K`: the length of the LAST axis of the band array (`band_values.shape = bs ++ [K]`; `bs` are
the batch axes, `bs = []` for an un-batched band).  `none` only for an array of rank `0`, which the Python
constructor refuses (`band_values.shape[-1]` raises) — such a leaf is left to the environment. -/
def toepK (vals : Tensor Rat) : Option Nat := vals.shape.getLast?

/-- the band values as an index function: `band k = vals.data[k]`, cast to `ℝ` -/
def toepBand (vals : Tensor Rat) (k : Nat) : ℝ := ((vals.data.getD k 0 : Rat) : ℝ)

/-- **the band row of batch row `b`** (NumPy broadcasting of the batch axes, what
`jnp.vectorize(signature='(n),(k)->(n)')` does): for a band array of shape `bshape = bs ++ [K]` and a data leaf of
shape `dshape = ds ++ [l]`, the multi-index of the batch row `b` in `ds` (`unravel`) is broadcast into `bs`
(`bcastIndex`: right-aligned, an axis of length `1` reads index `0`) and flattened (`ravelIdx`) — the same three
functions `Tensor.broadcastTo` (hence `angleAt`) is made of.  For an un-batched band (`bs = []`) it is `0`. -/
def bandRow (bshape dshape : List Nat) (b : Nat) : Nat :=
  ravelIdx bshape.dropLast (bcastIndex bshape.dropLast (unravel dshape.dropLast b))

/-- the band values used on batch row `b` of a leaf of shape `shape`: row `bandRow … b` of the band array seen as a
matrix with `K` columns -/
def toepBandAt (K : Nat) (vals : Tensor Rat) (shape : List Nat) (b : Nat) (k : Nat) : ℝ :=
  toepBand vals (bandRow vals.shape shape b * K + k)

/-- row `b` of a flat row-major vector whose last axis has length `l`, as an index function -/
def rowOf (l : Nat) (x : V) (b : Nat) (j : Nat) : ℝ := x.getD (b * l + j) 0

/-- `SymmetricBandToeplitzOperator.mv` on one leaf of shape `ds ++ [l]`, band array of shape `bs ++ [K]`: the output at
flat position `b*l + i` is `toep (K−1) l (band row of b) (row b of the input) i` — the banded product
`Σ_j [|i−j| < K] band_b|i−j| · x[b, j]` (`Toeplitz.toep`, the specification all four evaluation methods are proved
to compute, Props/C09.lean), independently for every batch row `b`; the band row of `b` is `toepBandAt`
(`toepBand` itself when the band is un-batched, `toepBandAt_unbatched`) -/
noncomputable def toepLeaf (K : Nat) (vals : Tensor Rat) (li _lo : LeafS) (x : V) : V :=
  let l := li.shape.getLastD 1
  (List.range li.size).map fun q =>
    Toeplitz.toep (K - 1) l (toepBandAt K vals li.shape (q / l)) (rowOf l x (q / l)) (q % l)

/-! ### the dense einsum kernel: one block array shared by all the leaves -/

/-- `jnp.einsum(subs, blocks, leaf)` on one flat leaf of shape `li.shape` (`[]` when einsum refuses) -/
noncomputable def denseKernel (subs : String) (vals : Tensor Rat) (li _lo : LeafS) (x : V) : V :=
  exData (Einsum.einsum2 subs (castT vals) ⟨li.shape, fit li.size x⟩)

/-- **`DenseBlockDiagonalOperator.mv`** with one block array shared by all leaves: leaf `k` of `p.inS` ↦ leaf `k` of
`p.outS` -/
noncomputable def denseLeaf (p : Params) : V → V :=
  perLeaf (denseKernel p.str p.vals) p.inS.leaves p.outS.leaves

/-- the parameters of the dense leaf that `transposeOp` builds (FuraxModel/Dual.lean) -/
def dualParams (p : Params) : Except PyErr Params :=
  match Einsum.transposedSubscripts p.str with
  | .ok s => .ok { p with inS := p.outS, outS := p.inS, str := s }
  | .error e => .error e

/-- **`DenseBlockDiagonalOperator.T.mv`**: `mv` of the leaf `transposeOp` builds -/
noncomputable def denseLeafT (p : Params) : V → V :=
  match dualParams p with
  | .ok p' => denseLeaf p'
  | .error _ => fun _ => []

/-- the block array is ONE array shared by all the leaves (`Params.vals` holds it; it is left empty when there is one
block array per leaf) -/
def denseShared (p : Params) : Bool := !p.vals.data.isEmpty

/-! ### the environment of uninterpreted leaves -/

/-- maps for the leaf classes no rule inspects, and their transposes; homogeneous -/
structure Env where
  f : Nat → V → V
  fT : Nat → V → V
  hom : ∀ u (a : ℝ) x, f u (x.map fun v => a * v) = (f u x).map fun v => a * v
  homT : ∀ u (a : ℝ) x, fT u (x.map fun v => a * v) = (fT u x).map fun v => a * v

/-- `mv` of a leaf operator -/
noncomputable def leafDen (E : Env) (u : Nat) (c : LeafCls) (p : Params) (x : V) : V :=
  let s := p.inS
  let t := if squareLeaf c then p.inS else p.outS
  let xi := fit s.size x
  fit t.size <|
    match c with
    | .identity | .ravel | .reshape => xi
    | .homothety => vsmul (p.vals.data.headD 1) xi
    | .diagonal => perLeaf (diagLeaf true p.vals (p.ints.getD 0 [])) s.leaves t.leaves xi
    | .broadcastDiagonal => perLeaf (diagLeaf false p.vals (p.ints.getD 0 [])) s.leaves t.leaves xi
    | .index | .pack => perLeaf (gatherLeaf p.idx) s.leaves t.leaves xi
    | .moveAxis => perLeaf (moveLeaf (p.ints.getD 0 []) (p.ints.getD 1 [])) s.leaves t.leaves xi
    | .qurot =>
      match kindOf s.leaves.length with
      | some k => stokesMap k (s.leaves.headD default).size (rotG p.vals (s.leaves.headD default).shape) xi
      | none => xi
    | .hwp =>
      match kindOf s.leaves.length with
      | some k => stokesMap k (s.leaves.headD default).size (fun _ => SV.hwp) xi
      | none => xi
    | .polarizer =>
      match kindOf s.leaves.length with
      | some k => polMap k (s.leaves.headD default).size xi
      | none => xi
    | .toeplitz =>
      match toepK p.vals with
      | some K => perLeaf (toepLeaf K p.vals) s.leaves t.leaves xi
      | none => E.f u xi
    | .dense => if denseShared p then denseLeaf p xi else E.f u xi
    | .obsMatrix | .opaque => E.f u xi

/-- `mv` of the transpose of a leaf operator (input on the leaf's output structure) -/
noncomputable def leafDenT (E : Env) (u : Nat) (c : LeafCls) (p : Params) (y : V) : V :=
  let s := p.inS
  let t := if squareLeaf c then p.inS else p.outS
  let yi := fit t.size y
  fit s.size <|
    match c with
    | .identity | .ravel | .reshape => yi
    | .homothety => vsmul (p.vals.data.headD 1) yi
    | .diagonal => perLeaf (diagLeaf true p.vals (p.ints.getD 0 [])) s.leaves t.leaves yi
    | .broadcastDiagonal => yi        -- not used by any rule; the broadcasting diagonal is square in the claims
    | .index | .pack => perLeaf (scatterLeaf p.idx) t.leaves s.leaves yi
    | .moveAxis => perLeaf (moveLeaf (p.ints.getD 1 []) (p.ints.getD 0 [])) t.leaves s.leaves yi
    | .qurot =>
      match kindOf s.leaves.length with
      | some k => stokesMap k (s.leaves.headD default).size (rotTG p.vals (s.leaves.headD default).shape) yi
      | none => yi
    | .hwp =>
      match kindOf s.leaves.length with
      | some k => stokesMap k (s.leaves.headD default).size (fun _ => SV.hwp) yi
      | none => yi
    | .polarizer =>
      match kindOf s.leaves.length with
      | some k => polTMap k (s.leaves.headD default).size yi
      | none => yi
    | .toeplitz =>          -- `@symmetric`: the transpose is the operator itself
      match toepK p.vals with
      | some K => perLeaf (toepLeaf K p.vals) s.leaves t.leaves yi
      | none => E.fT u yi
    | .dense => if denseShared p then denseLeafT p yi else E.fT u yi
    | .obsMatrix | .opaque => E.fT u yi

/-! ### lazy inverses -/

/-- `g` inverts `f` on vectors of length `n`, keeps that length and is homogeneous -/
def IsInvOn (n : Nat) (f g : V → V) : Prop :=
  (∀ x, x.length = n → (g x).length = n ∧ f (g x) = x ∧ g (f x) = x) ∧
  (∀ (a : ℝ) x, x.length = n → g (x.map fun v => a * v) = (g x).map fun v => a * v)

open Classical in
/-- the inverse of `f` on vectors of length `n` when there is one (assumption A4: the iterative solver is exact),
the zero map otherwise -/
noncomputable def chooseInv (n : Nat) (f : V → V) : V → V :=
  if h : ∃ g, IsInvOn n f g then fun x => fit n (Classical.choose h (fit n x))
  else fun _ => List.replicate n 0

/-! ### the denotation -/

mutual
/-- what `o.mv` computes -/
noncomputable def den (E : Env) : Op → V → V
  | .leaf u c p => leafDen E u c p
  | .wrap _ .inverse o => chooseInv (inSize o) (den E o)
  | .wrap _ .diagInv (.leaf u .diagonal p) => leafDen E u .diagonal { p with vals := pinvT p.vals }
  | .wrap _ .diagInv o => chooseInv (inSize o) (den E o)
  | .wrap _ _ o => denT E o                      -- TransposeOperator and its subclasses
  | .comp _ ops => app E ops
  | .cont _ .add _ ops => sumApp E ops
  | .cont _ .blockRow _ ops => rowApp E ops
  | .cont _ .blockDiag _ ops => diagApp E ops
  | .cont _ .blockCol _ ops => colApp E ops
/-- what `o.T.mv` computes -/
noncomputable def denT (E : Env) : Op → V → V
  | .leaf u c p => leafDenT E u c p
  | .wrap _ .inverse o => chooseInv (inSize o) (denT E o)
  | .wrap _ .diagInv (.leaf u .diagonal p) => leafDen E u .diagonal { p with vals := pinvT p.vals }
  | .wrap _ .diagInv o => chooseInv (inSize o) (denT E o)
  | .wrap _ _ o => den E o
  | .comp _ ops => appT E ops
  | .cont _ .add _ ops => sumAppT E ops
  | .cont _ .blockRow _ ops => colAppT E ops      -- the transpose of a block row is the column of transposes
  | .cont _ .blockDiag _ ops => diagAppT E ops
  | .cont _ .blockCol _ ops => rowAppT E ops
/-- `[a, b, c]` denotes `a ∘ b ∘ c` -/
noncomputable def app (E : Env) : List Op → V → V
  | [], x => x
  | o :: os, x => den E o (app E os x)
/-- the transpose of a chain: `cᵀ ∘ bᵀ ∘ aᵀ` applied to `y`, i.e. `aᵀ` first -/
noncomputable def appT (E : Env) : List Op → V → V
  | [], y => y
  | o :: os, y => appT E os (denT E o y)
noncomputable def sumApp (E : Env) : List Op → V → V
  | [], _ => []
  | o :: os, x => vadd (den E o x) (sumApp E os x)
noncomputable def sumAppT (E : Env) : List Op → V → V
  | [], _ => []
  | o :: os, y => vadd (denT E o y) (sumAppT E os y)
/-- block row: the input is split by the operands' input sizes, the results are added -/
noncomputable def rowApp (E : Env) : List Op → V → V
  | [], _ => []
  | o :: os, x => vadd (den E o (headChunk (inSize o) x)) (rowApp E os (x.drop (inSize o)))
/-- block diagonal: split, apply, concatenate -/
noncomputable def diagApp (E : Env) : List Op → V → V
  | [], _ => []
  | o :: os, x => fit (outSize o) (den E o (headChunk (inSize o) x)) ++ diagApp E os (x.drop (inSize o))
/-- block column: apply every operand to the whole input, concatenate -/
noncomputable def colApp (E : Env) : List Op → V → V
  | [], _ => []
  | o :: os, x => fit (outSize o) (den E o x) ++ colApp E os x
/-- transpose of a block row = column of the transposes -/
noncomputable def colAppT (E : Env) : List Op → V → V
  | [], _ => []
  | o :: os, y => fit (inSize o) (denT E o y) ++ colAppT E os y
noncomputable def diagAppT (E : Env) : List Op → V → V
  | [], _ => []
  | o :: os, y => fit (inSize o) (denT E o (headChunk (outSize o) y)) ++ diagAppT E os (y.drop (outSize o))
/-- transpose of a block column = row of the transposes -/
noncomputable def rowAppT (E : Env) : List Op → V → V
  | [], _ => []
  | o :: os, y => vadd (denT E o (headChunk (outSize o) y)) (rowAppT E os (y.drop (outSize o)))
end

/-- the value space of a structure: flat vectors with one entry per element -/
def mem (s : Struct) (x : V) : Prop := x.length = s.size

end ListSem
end Furax
