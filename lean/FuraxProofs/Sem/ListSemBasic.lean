/-
Structural laws of the list denotation (FuraxProofs/Sem/ListSem.lean):

* basic lemmas on `fit`, `vadd`, `vsmul`, `headChunk`, `chunks`, `perLeaf`;
* `lenLaw`  — every structurally well-formed operator returns a vector of its declared output size;
* `homLaw`  — every operator commutes with multiplication by a scalar, given that the leaf kernels do;
* the laws of `OpSem` / `ArithSem` (FuraxProofs/Lemmas/Nary.lean, ArithSound.lean) as standalone theorems;
* lazy inverses: `invertible`, `inv_left`, `inv_right`, `chooseInv_spec`.
-/
import FuraxProofs.Sem.ListSemLaws
namespace Furax
namespace ListSem
open Op

/-! ### `fit` -/

@[simp] theorem fit_length (n : Nat) (x : V) : (fit n x).length = n := List.takeD_length n x 0

theorem fit_zero (x : V) : fit 0 x = [] := rfl

theorem fit_nil (n : Nat) : fit n [] = List.replicate n 0 := List.takeD_nil ..

theorem fit_succ_cons (n : Nat) (v : ℝ) (x : V) : fit (n + 1) (v :: x) = v :: fit n x := rfl

theorem fit_succ_nil (n : Nat) : fit (n + 1) [] = 0 :: fit n [] := rfl

theorem fit_eq_self {n : Nat} {x : V} (h : x.length = n) : fit n x = x := by
  subst h
  induction x with
  | nil => rfl
  | cons v x ih => rw [List.length_cons, fit_succ_cons, ih]

theorem fit_fit (n : Nat) (x : V) : fit n (fit n x) = fit n x := fit_eq_self (fit_length n x)

theorem fit_map (n : Nat) (a : ℝ) (x : V) :
    fit n (x.map fun v => a * v) = (fit n x).map fun v => a * v := by
  induction n generalizing x with
  | zero => rfl
  | succ n ih =>
    cases x with
    | nil => simp only [List.map_nil, fit_nil, List.map_replicate, mul_zero]
    | cons v x => simp only [List.map_cons, fit_succ_cons, ih]

theorem fit_take (n : Nat) (x : V) : fit n (x.take n) = fit n x := by
  induction n generalizing x with
  | zero => rfl
  | succ n ih =>
    cases x with
    | nil => rfl
    | cons v x => simp only [List.take_succ_cons, fit_succ_cons, ih]

theorem fit_append_left {n : Nat} {x : V} (y : V) (h : x.length = n) : fit n (x ++ y) = x := by
  subst h
  induction x with
  | nil => rfl
  | cons v x ih => simp only [List.cons_append, List.length_cons, fit_succ_cons, ih]

theorem fit_replicate_zero (n m : Nat) : fit n (List.replicate m 0) = List.replicate n 0 := by
  induction n generalizing m with
  | zero => rfl
  | succ n ih =>
    cases m with
    | zero => exact fit_nil _
    | succ m => simp only [List.replicate_succ, fit_succ_cons, ih]

/-! ### `vadd` -/

@[simp] theorem vadd_nil_left (b : V) : vadd [] b = b := by
  cases b <;> rfl

@[simp] theorem vadd_nil_right (a : V) : vadd a [] = a := by
  cases a <;> rfl

theorem vadd_cons (x y : ℝ) (a b : V) : vadd (x :: a) (y :: b) = (x + y) :: vadd a b := rfl

theorem vadd_assoc (x y z : V) : vadd (vadd x y) z = vadd x (vadd y z) := by
  induction x generalizing y z with
  | nil => simp only [vadd_nil_left]
  | cons a x ih =>
    cases y with
    | nil => simp only [vadd_nil_left, vadd_nil_right]
    | cons b y =>
      cases z with
      | nil => simp only [vadd_nil_right]
      | cons c z => simp only [vadd_cons, ih, add_assoc]

theorem vadd_length (x y : V) : (vadd x y).length = max x.length y.length := by
  induction x generalizing y with
  | nil => simp
  | cons a x ih =>
    cases y with
    | nil => simp
    | cons b y => simp only [vadd_cons, List.length_cons, ih]; omega

theorem vadd_map (a : ℝ) (x y : V) :
    (vadd x y).map (fun v => a * v) = vadd (x.map fun v => a * v) (y.map fun v => a * v) := by
  induction x generalizing y with
  | nil => simp only [vadd_nil_left, List.map_nil]
  | cons b x ih =>
    cases y with
    | nil => simp only [vadd_nil_right, List.map_nil]
    | cons c y => simp only [vadd_cons, List.map_cons, ih, mul_add]

theorem vadd_comm (x y : V) : vadd x y = vadd y x := by
  induction x generalizing y with
  | nil => simp only [vadd_nil_left, vadd_nil_right]
  | cons a x ih =>
    cases y with
    | nil => simp only [vadd_nil_left, vadd_nil_right]
    | cons b y => simp only [vadd_cons, ih, add_comm]

/-! ### `vsmul` -/

theorem vsmul_eq_map (a : Rat) (x : V) : vsmul a x = x.map fun v => ((a : Rat) : ℝ) * v := rfl

@[simp] theorem vsmul_length (a : Rat) (x : V) : (vsmul a x).length = x.length := List.length_map ..

theorem vsmul_one (x : V) : vsmul 1 x = x := by
  simp [vsmul]

theorem vsmul_vsmul (a b : Rat) (x : V) : vsmul a (vsmul b x) = vsmul (a * b) x := by
  simp [vsmul, mul_assoc]

theorem vsmul_nil (a : Rat) : vsmul a [] = [] := rfl

theorem vsmul_vadd (a : Rat) (x y : V) : vsmul a (vadd x y) = vadd (vsmul a x) (vsmul a y) :=
  vadd_map _ x y

theorem fit_vsmul (n : Nat) (a : Rat) (x : V) : fit n (vsmul a x) = vsmul a (fit n x) := fit_map n _ x

/-! ### `headChunk`, `chunks` -/

theorem headChunk_eq_fit (n : Nat) (x : V) : headChunk n x = fit n x := fit_take n x

@[simp] theorem headChunk_length (n : Nat) (x : V) : (headChunk n x).length = n := fit_length _ _

theorem headChunk_map (n : Nat) (a : ℝ) (x : V) :
    headChunk n (x.map fun v => a * v) = (headChunk n x).map fun v => a * v := by
  simp only [headChunk_eq_fit, fit_map]

theorem headChunk_append {n : Nat} {x : V} (y : V) (h : x.length = n) : headChunk n (x ++ y) = x := by
  rw [headChunk_eq_fit, fit_append_left y h]

theorem chunks_cons (n : Nat) (ns : List Nat) (x : V) :
    chunks (n :: ns) x = headChunk n x :: chunks ns (x.drop n) := rfl

@[simp] theorem chunks_length (ns : List Nat) (x : V) : (chunks ns x).length = ns.length := by
  induction ns generalizing x with
  | nil => rfl
  | cons n ns ih => simp only [chunks_cons, List.length_cons, ih]

theorem chunks_map_length (ns : List Nat) (x : V) : (chunks ns x).map List.length = ns := by
  induction ns generalizing x with
  | nil => rfl
  | cons n ns ih => simp only [chunks_cons, List.map_cons, headChunk_length, ih]

theorem chunks_mem_length (ns : List Nat) (x : V) (i : Nat) (h : i < (chunks ns x).length) :
    ((chunks ns x)[i]).length = ns[i]'(by simpa using h) := by
  have := chunks_map_length ns x
  have h2 := congrArg (fun l => l[i]?) this
  simp only [List.getElem?_map] at h2
  rw [List.getElem?_eq_getElem h, List.getElem?_eq_getElem (by simpa using h)] at h2
  simpa using h2

theorem chunks_flatten (ns : List Nat) (x : V) (h : x.length = ns.sum) : (chunks ns x).flatten = x := by
  induction ns generalizing x with
  | nil =>
    simp only [List.sum_nil, List.length_eq_zero_iff] at h
    subst h; rfl
  | cons n ns ih =>
    simp only [List.sum_cons] at h
    simp only [chunks_cons, List.flatten_cons]
    rw [ih (x.drop n) (by rw [List.length_drop]; omega)]
    have hn : (x.take n).length = n := by rw [List.length_take]; omega
    rw [headChunk, fit_eq_self hn, List.take_append_drop]

theorem chunks_of_flatten (ns : List Nat) (xs : List V) (h : xs.map List.length = ns) :
    chunks ns xs.flatten = xs := by
  induction xs generalizing ns with
  | nil => subst h; rfl
  | cons x xs ih =>
    subst h
    simp only [List.map_cons, chunks_cons, List.flatten_cons]
    rw [headChunk_append _ rfl, List.drop_left, ih _ rfl]

theorem chunks_map (ns : List Nat) (a : ℝ) (x : V) :
    chunks ns (x.map fun v => a * v) = (chunks ns x).map fun c => c.map fun v => a * v := by
  induction ns generalizing x with
  | nil => rfl
  | cons n ns ih => simp only [chunks_cons, List.map_cons, headChunk_map, ← List.map_drop, ih]

/-! ### `perLeaf` -/

theorem perLeaf_nil_left (f : LeafS → LeafS → V → V) (outs : List LeafS) (x : V) :
    perLeaf f [] outs x = [] := rfl

theorem perLeaf_nil_right (f : LeafS → LeafS → V → V) (ins : List LeafS) (x : V) :
    perLeaf f ins [] x = [] := by
  simp [perLeaf]

theorem perLeaf_cons (f : LeafS → LeafS → V → V) (i o : LeafS) (ins outs : List LeafS) (x : V) :
    perLeaf f (i :: ins) (o :: outs) x =
      fit o.size (f i o (headChunk i.size x)) ++ perLeaf f ins outs (x.drop i.size) := by
  simp [perLeaf, chunks_cons]

/-- the result of a leaf-wise map has one entry per element of the output leaves -/
theorem perLeaf_length (f : LeafS → LeafS → V → V) (ins outs : List LeafS) (x : V)
    (h : ins.length = outs.length) : (perLeaf f ins outs x).length = (outs.map LeafS.size).sum := by
  induction ins generalizing outs x with
  | nil =>
    cases outs with
    | nil => rfl
    | cons o outs => simp at h
  | cons i ins ih =>
    cases outs with
    | nil => simp at h
    | cons o outs =>
      rw [perLeaf_cons, List.length_append, fit_length, ih outs _ (by simpa using h)]
      simp

/-- in general: one entry per element of the output leaves that have a matching input leaf -/
theorem perLeaf_length_gen (f : LeafS → LeafS → V → V) (ins outs : List LeafS) (x : V) :
    (perLeaf f ins outs x).length = ((outs.take ins.length).map LeafS.size).sum := by
  induction ins generalizing outs x with
  | nil => simp [perLeaf_nil_left]
  | cons i ins ih =>
    cases outs with
    | nil => simp [perLeaf_nil_right]
    | cons o outs =>
      rw [perLeaf_cons, List.length_append, fit_length, ih outs _]
      simp

/-- a leaf-wise map of homogeneous kernels is homogeneous -/
theorem perLeaf_map (f : LeafS → LeafS → V → V) (a : ℝ)
    (hf : ∀ i o x, f i o (x.map fun v => a * v) = (f i o x).map fun v => a * v)
    (ins outs : List LeafS) (x : V) :
    perLeaf f ins outs (x.map fun v => a * v) = (perLeaf f ins outs x).map fun v => a * v := by
  induction ins generalizing outs x with
  | nil => rfl
  | cons i ins ih =>
    cases outs with
    | nil => simp [perLeaf_nil_right]
    | cons o outs =>
      simp only [perLeaf_cons, headChunk_map, hf, fit_map, ← List.map_drop, ih, List.map_append]

/-! ### sizes of the declared structures -/

theorem nest_size (td : TreeDef) (ss : List Struct) :
    (Struct.nest td ss).size = (ss.map Struct.size).sum := by
  simp only [Struct.nest, Struct.size]
  induction ss with
  | nil => rfl
  | cons s rest ih =>
    simp only [List.map_cons, List.flatten_cons, List.map_append, List.sum_append, List.sum_cons, ih]
    rfl

theorem outSList_sizes (ops : List Op) : (outSList ops).map Struct.size = ops.map outSize := by
  induction ops with
  | nil => rfl
  | cons o os ih => simp only [outSList, List.map_cons, ih, outSize]

theorem inSList_sizes (ops : List Op) : (inSList ops).map Struct.size = ops.map inSize := by
  induction ops with
  | nil => rfl
  | cons o os ih => simp only [inSList, List.map_cons, ih, inSize]

/-! ### lengths: leaves and lazy inverses -/

theorem leafDen_length (E : Env) (u : Nat) (c : LeafCls) (p : Params) (x : V) :
    (leafDen E u c p x).length = outSize (.leaf u c p) := by
  unfold leafDen
  exact fit_length _ _

theorem leafDenT_length (E : Env) (u : Nat) (c : LeafCls) (p : Params) (y : V) :
    (leafDenT E u c p y).length = inSize (.leaf u c p) := by
  unfold leafDenT
  exact fit_length _ _

theorem chooseInv_length (n : Nat) (f : V → V) (x : V) : (chooseInv n f x).length = n := by
  unfold chooseInv
  split
  · exact fit_length _ _
  · exact List.length_replicate ..

/-! ### lengths: the list recursions -/

theorem diagApp_length (E : Env) (ops : List Op) (x : V) :
    (diagApp E ops x).length = (ops.map outSize).sum := by
  induction ops generalizing x with
  | nil => rfl
  | cons o os ih => rw [diagApp, List.length_append, fit_length, ih, List.map_cons, List.sum_cons]

theorem colApp_length (E : Env) (ops : List Op) (x : V) :
    (colApp E ops x).length = (ops.map outSize).sum := by
  induction ops with
  | nil => rfl
  | cons o os ih => rw [colApp, List.length_append, fit_length, ih, List.map_cons, List.sum_cons]

theorem colAppT_length (E : Env) (ops : List Op) (y : V) :
    (colAppT E ops y).length = (ops.map inSize).sum := by
  induction ops with
  | nil => rfl
  | cons o os ih => rw [colAppT, List.length_append, fit_length, ih, List.map_cons, List.sum_cons]

theorem diagAppT_length (E : Env) (ops : List Op) (y : V) :
    (diagAppT E ops y).length = (ops.map inSize).sum := by
  induction ops generalizing y with
  | nil => rfl
  | cons o os ih => rw [diagAppT, List.length_append, fit_length, ih, List.map_cons, List.sum_cons]

theorem sumApp_length_le (E : Env) (n : Nat) (ops : List Op)
    (h : ∀ o ∈ ops, ∀ x, (den E o x).length = n) (x : V) : (sumApp E ops x).length ≤ n := by
  induction ops with
  | nil => exact Nat.zero_le _
  | cons o os ih =>
    rw [sumApp, vadd_length, h o (List.mem_cons_self ..)]
    have := ih (fun o' ho' => h o' (List.mem_cons_of_mem _ ho'))
    omega

theorem sumApp_length (E : Env) (n : Nat) (ops : List Op) (hne : ops ≠ [])
    (h : ∀ o ∈ ops, ∀ x, (den E o x).length = n) (x : V) : (sumApp E ops x).length = n := by
  cases ops with
  | nil => exact absurd rfl hne
  | cons o os =>
    rw [sumApp, vadd_length, h o (List.mem_cons_self ..)]
    have := sumApp_length_le E n os (fun o' ho' => h o' (List.mem_cons_of_mem _ ho')) x
    omega

theorem sumAppT_length_le (E : Env) (n : Nat) (ops : List Op)
    (h : ∀ o ∈ ops, ∀ y, (denT E o y).length = n) (y : V) : (sumAppT E ops y).length ≤ n := by
  induction ops with
  | nil => exact Nat.zero_le _
  | cons o os ih =>
    rw [sumAppT, vadd_length, h o (List.mem_cons_self ..)]
    have := ih (fun o' ho' => h o' (List.mem_cons_of_mem _ ho'))
    omega

theorem sumAppT_length (E : Env) (n : Nat) (ops : List Op) (hne : ops ≠ [])
    (h : ∀ o ∈ ops, ∀ y, (denT E o y).length = n) (y : V) : (sumAppT E ops y).length = n := by
  cases ops with
  | nil => exact absurd rfl hne
  | cons o os =>
    rw [sumAppT, vadd_length, h o (List.mem_cons_self ..)]
    have := sumAppT_length_le E n os (fun o' ho' => h o' (List.mem_cons_of_mem _ ho')) y
    omega

theorem rowApp_length_le (E : Env) (n : Nat) (ops : List Op)
    (h : ∀ o ∈ ops, ∀ x, (den E o x).length = n) (x : V) : (rowApp E ops x).length ≤ n := by
  induction ops generalizing x with
  | nil => exact Nat.zero_le _
  | cons o os ih =>
    rw [rowApp, vadd_length, h o (List.mem_cons_self ..)]
    have := ih (fun o' ho' => h o' (List.mem_cons_of_mem _ ho')) (x.drop (inSize o))
    omega

theorem rowApp_length (E : Env) (n : Nat) (ops : List Op) (hne : ops ≠ [])
    (h : ∀ o ∈ ops, ∀ x, (den E o x).length = n) (x : V) : (rowApp E ops x).length = n := by
  cases ops with
  | nil => exact absurd rfl hne
  | cons o os =>
    rw [rowApp, vadd_length, h o (List.mem_cons_self ..)]
    have := rowApp_length_le E n os (fun o' ho' => h o' (List.mem_cons_of_mem _ ho')) (x.drop (inSize o))
    omega

theorem rowAppT_length_le (E : Env) (n : Nat) (ops : List Op)
    (h : ∀ o ∈ ops, ∀ y, (denT E o y).length = n) (y : V) : (rowAppT E ops y).length ≤ n := by
  induction ops generalizing y with
  | nil => exact Nat.zero_le _
  | cons o os ih =>
    rw [rowAppT, vadd_length, h o (List.mem_cons_self ..)]
    have := ih (fun o' ho' => h o' (List.mem_cons_of_mem _ ho')) (y.drop (outSize o))
    omega

theorem rowAppT_length (E : Env) (n : Nat) (ops : List Op) (hne : ops ≠ [])
    (h : ∀ o ∈ ops, ∀ y, (denT E o y).length = n) (y : V) : (rowAppT E ops y).length = n := by
  cases ops with
  | nil => exact absurd rfl hne
  | cons o os =>
    rw [rowAppT, vadd_length, h o (List.mem_cons_self ..)]
    have := rowAppT_length_le E n os (fun o' ho' => h o' (List.mem_cons_of_mem _ ho')) (y.drop (outSize o))
    omega

theorem app_length (E : Env) (ops : List Op) (hne : ops ≠ [])
    (h : ∀ o ∈ ops, ∀ x, (den E o x).length = outSize o) (x : V) :
    (app E ops x).length = (outSHead ops).size := by
  cases ops with
  | nil => exact absurd rfl hne
  | cons o os => rw [app, h o (List.mem_cons_self ..)]; rfl

theorem appT_length (E : Env) (ops : List Op) (hne : ops ≠ [])
    (h : ∀ o ∈ ops, ∀ y, (denT E o y).length = inSize o) (y : V) :
    (appT E ops y).length = (inSLast ops).size := by
  induction ops generalizing y with
  | nil => exact absurd rfl hne
  | cons o os ih =>
    cases os with
    | nil => rw [appT, appT, h o (List.mem_cons_self ..)]; rfl
    | cons b rest =>
      rw [appT, ih (by simp) (fun o' ho' => h o' (List.mem_cons_of_mem _ ho'))]
      rfl

/-! ### `LenLaw` -/

/-- both length laws at one operator -/
def LenAt (E : Env) (o : Op) : Prop :=
  (∀ x, (den E o x).length = outSize o) ∧ (∀ y, (denT E o y).length = inSize o)

theorem lenAt_leaf (E : Env) (u : Nat) (c : LeafCls) (p : Params) : LenAt E (.leaf u c p) :=
  ⟨fun x => by rw [den]; exact leafDen_length E u c p x, fun y => by rw [denT]; exact leafDenT_length E u c p y⟩

/-- the only structural fact used for wrappers: a lazy inverse wraps a square operand -/
theorem lenAt_wrap (E : Env) (u : Nat) (k : WrapCls) (o : Op) (hsq : k.isLazy → Op.inS o = Op.outS o)
    (ih : LenAt E o) : LenAt E (.wrap u k o) := by
  obtain ⟨ih1, ih2⟩ := ih
  cases k with
  | inverse =>
    have hs := hsq (.inl rfl)
    refine ⟨fun x => ?_, fun y => ?_⟩
    · rw [den, chooseInv_length]; simp [outSize, inSize, Op.outS]
    · rw [denT, chooseInv_length]; simp [inSize, Op.inS, hs]
  | diagInv =>
    by_cases hd : ∃ u' p, o = .leaf u' .diagonal p
    · obtain ⟨u', p, rfl⟩ := hd
      refine ⟨fun x => ?_, fun y => ?_⟩
      · rw [den, leafDen_length]; simp [outSize, Op.outS, Op.inS, squareLeaf]
      · rw [denT, leafDen_length]; simp [outSize, inSize, Op.outS, Op.inS, squareLeaf]
    · have hd' : ∀ (u' : ℕ) (p : Params), o = leaf u' LeafCls.diagonal p → False :=
        fun u' p h => hd ⟨u', p, h⟩
      refine ⟨fun x => ?_, fun y => ?_⟩
      · rw [den.eq_4 _ _ _ hd', chooseInv_length]; simp [outSize, inSize, Op.outS]
      · rw [denT.eq_4 _ _ _ hd', chooseInv_length]; simp [inSize, Op.inS]
  | transpose =>
    refine ⟨fun x => ?_, fun y => ?_⟩
    · rw [den.eq_5 _ _ _ _ (by simp) (by simp) (by simp), ih2]; simp [outSize, inSize, Op.outS]
    · rw [denT.eq_5 _ _ _ _ (by simp) (by simp) (by simp), ih1]; simp [outSize, inSize, Op.inS]
  | reshapeT =>
    refine ⟨fun x => ?_, fun y => ?_⟩
    · rw [den.eq_5 _ _ _ _ (by simp) (by simp) (by simp), ih2]; simp [outSize, inSize, Op.outS]
    · rw [denT.eq_5 _ _ _ _ (by simp) (by simp) (by simp), ih1]; simp [outSize, inSize, Op.inS]
  | qurotT =>
    refine ⟨fun x => ?_, fun y => ?_⟩
    · rw [den.eq_5 _ _ _ _ (by simp) (by simp) (by simp), ih2]; simp [outSize, inSize, Op.outS]
    · rw [denT.eq_5 _ _ _ _ (by simp) (by simp) (by simp), ih1]; simp [outSize, inSize, Op.inS]
  | obsT =>
    refine ⟨fun x => ?_, fun y => ?_⟩
    · rw [den.eq_5 _ _ _ _ (by simp) (by simp) (by simp), ih2]; simp [outSize, inSize, Op.outS]
    · rw [denT.eq_5 _ _ _ _ (by simp) (by simp) (by simp), ih1]; simp [outSize, inSize, Op.inS]

theorem lenAt_comp (E : Env) (u : Nat) (ops : List Op) (hne : ops ≠ []) (ih : ∀ o ∈ ops, LenAt E o) :
    LenAt E (.comp u ops) := by
  refine ⟨fun x => ?_, fun y => ?_⟩
  · rw [den, app_length E ops hne (fun o ho => (ih o ho).1)]; simp [outSize, Op.outS]
  · rw [denT, appT_length E ops hne (fun o ho => (ih o ho).2)]; simp [inSize, Op.inS]

theorem lenAt_cont (E : Env) (u : Nat) (k : ContCls) (td : TreeDef) (ops : List Op) (hne : ops ≠ [])
    (hc : ContOK k td ops) (ih : ∀ o ∈ ops, LenAt E o) : LenAt E (.cont u k td ops) := by
  obtain ⟨_, hc⟩ := hc
  cases k with
  | add =>
    simp only at hc
    refine ⟨fun x => ?_, fun y => ?_⟩
    · rw [den, sumApp_length E (outSHead ops).size ops hne (fun o ho x => by rw [(ih o ho).1, outSize, (hc o ho).2])]
      simp [outSize, Op.outS]
    · rw [denT, sumAppT_length E (inSHead ops).size ops hne (fun o ho y => by rw [(ih o ho).2, inSize, (hc o ho).1])]
      simp [inSize, Op.inS]
  | blockRow =>
    simp only at hc
    refine ⟨fun x => ?_, fun y => ?_⟩
    · rw [den, rowApp_length E (outSHead ops).size ops hne (fun o ho x => by rw [(ih o ho).1, outSize, hc o ho])]
      simp [outSize, Op.outS]
    · rw [denT, colAppT_length]
      simp [inSize, Op.inS, nest_size, inSList_sizes]
  | blockDiag =>
    refine ⟨fun x => ?_, fun y => ?_⟩
    · rw [den, diagApp_length]
      simp [outSize, Op.outS, nest_size, outSList_sizes]
    · rw [denT, diagAppT_length]
      simp [inSize, Op.inS, nest_size, inSList_sizes]
  | blockCol =>
    simp only at hc
    refine ⟨fun x => ?_, fun y => ?_⟩
    · rw [den, colApp_length]
      simp [outSize, Op.outS, nest_size, outSList_sizes]
    · rw [denT, rowAppT_length E (inSHead ops).size ops hne (fun o ho y => by rw [(ih o ho).2, inSize, hc o ho])]
      simp [inSize, Op.inS]

mutual
theorem lenAt (E : Env) : ∀ o, StructOK o → LenAt E o
  | .leaf u c p, _ => lenAt_leaf E u c p
  | .wrap u k o, h => by
      simp only [StructOK, WTExpr] at h
      exact lenAt_wrap E u k o (fun hk => (h.2.1 hk).1) (lenAt E o h.1)
  | .comp u ops, h => by
      simp only [StructOK, WTExpr] at h
      exact lenAt_comp E u ops h.1 (lenAtList E ops h.2.1)
  | .cont u k td ops, h => by
      simp only [StructOK, WTExpr] at h
      exact lenAt_cont E u k td ops h.1 h.2.2 (lenAtList E ops h.2.1)
theorem lenAtList (E : Env) : ∀ ops, WTList (fun _ => True) (fun _ _ => True) ops → ∀ o ∈ ops, LenAt E o
  | [], _ => fun _ ho => by simp at ho
  | o :: os, h => by
      simp only [WTList] at h
      intro o' ho'
      rcases List.mem_cons.mp ho' with heq | ho'
      · rw [heq]; exact lenAt E o h.1
      · exact lenAtList E os h.2 o' ho'
end

/-- **every structurally well-formed operator returns a vector of its declared output size, whatever the
input** (and its transpose a vector of the declared input size) -/
theorem lenLaw (E : Env) : LenLaw E :=
  ⟨fun o h => (lenAt E o h).1, fun o h => (lenAt E o h).2⟩

theorem den_length (E : Env) (o : Op) (h : StructOK o) (x : V) : (den E o x).length = outSize o :=
  (lenAt E o h).1 x

theorem denT_length (E : Env) (o : Op) (h : StructOK o) (y : V) : (denT E o y).length = inSize o :=
  (lenAt E o h).2 y

/-! ### homogeneity -/

/-- `f` commutes with multiplication by a scalar, on ALL inputs -/
def Hom (f : V → V) : Prop := ∀ (a : ℝ) (x : V), f (x.map fun v => a * v) = (f x).map fun v => a * v

/-- a lazy inverse is homogeneous on inputs of any length, whatever `f` is: it first normalises the length -/
theorem chooseInv_hom (n : Nat) (f : V → V) : Hom (chooseInv n f) := by
  intro a x
  unfold chooseInv
  split
  · rename_i h
    show fit n (Classical.choose h (fit n (x.map fun v => a * v))) =
      (fit n (Classical.choose h (fit n x))).map fun v => a * v
    rw [fit_map, (Classical.choose_spec h).2 a (fit n x) (fit_length n x), fit_map]
  · simp only [List.map_replicate, mul_zero]

theorem app_hom (E : Env) (ops : List Op) (h : ∀ o ∈ ops, Hom (den E o)) : Hom (app E ops) := by
  intro a x
  induction ops with
  | nil => rfl
  | cons o os ih =>
    rw [app, app, ih (fun o' ho' => h o' (List.mem_cons_of_mem _ ho')), h o (List.mem_cons_self ..)]

theorem appT_hom (E : Env) (ops : List Op) (h : ∀ o ∈ ops, Hom (denT E o)) : Hom (appT E ops) := by
  intro a y
  induction ops generalizing y with
  | nil => rfl
  | cons o os ih =>
    rw [appT, appT, h o (List.mem_cons_self ..), ih (fun o' ho' => h o' (List.mem_cons_of_mem _ ho'))]

theorem sumApp_hom (E : Env) (ops : List Op) (h : ∀ o ∈ ops, Hom (den E o)) : Hom (sumApp E ops) := by
  intro a x
  induction ops with
  | nil => rfl
  | cons o os ih =>
    rw [sumApp, sumApp, ih (fun o' ho' => h o' (List.mem_cons_of_mem _ ho')), h o (List.mem_cons_self ..),
      vadd_map]

theorem sumAppT_hom (E : Env) (ops : List Op) (h : ∀ o ∈ ops, Hom (denT E o)) : Hom (sumAppT E ops) := by
  intro a y
  induction ops with
  | nil => rfl
  | cons o os ih =>
    rw [sumAppT, sumAppT, ih (fun o' ho' => h o' (List.mem_cons_of_mem _ ho')), h o (List.mem_cons_self ..),
      vadd_map]

theorem rowApp_hom (E : Env) (ops : List Op) (h : ∀ o ∈ ops, Hom (den E o)) : Hom (rowApp E ops) := by
  intro a x
  induction ops generalizing x with
  | nil => rfl
  | cons o os ih =>
    rw [rowApp, rowApp, ← List.map_drop, ih (fun o' ho' => h o' (List.mem_cons_of_mem _ ho')),
      headChunk_map, h o (List.mem_cons_self ..), vadd_map]

theorem rowAppT_hom (E : Env) (ops : List Op) (h : ∀ o ∈ ops, Hom (denT E o)) : Hom (rowAppT E ops) := by
  intro a y
  induction ops generalizing y with
  | nil => rfl
  | cons o os ih =>
    rw [rowAppT, rowAppT, ← List.map_drop, ih (fun o' ho' => h o' (List.mem_cons_of_mem _ ho')),
      headChunk_map, h o (List.mem_cons_self ..), vadd_map]

theorem diagApp_hom (E : Env) (ops : List Op) (h : ∀ o ∈ ops, Hom (den E o)) : Hom (diagApp E ops) := by
  intro a x
  induction ops generalizing x with
  | nil => rfl
  | cons o os ih =>
    rw [diagApp, diagApp, ← List.map_drop, ih (fun o' ho' => h o' (List.mem_cons_of_mem _ ho')),
      headChunk_map, h o (List.mem_cons_self ..), fit_map, List.map_append]

theorem diagAppT_hom (E : Env) (ops : List Op) (h : ∀ o ∈ ops, Hom (denT E o)) : Hom (diagAppT E ops) := by
  intro a y
  induction ops generalizing y with
  | nil => rfl
  | cons o os ih =>
    rw [diagAppT, diagAppT, ← List.map_drop, ih (fun o' ho' => h o' (List.mem_cons_of_mem _ ho')),
      headChunk_map, h o (List.mem_cons_self ..), fit_map, List.map_append]

theorem colApp_hom (E : Env) (ops : List Op) (h : ∀ o ∈ ops, Hom (den E o)) : Hom (colApp E ops) := by
  intro a x
  induction ops with
  | nil => rfl
  | cons o os ih =>
    rw [colApp, colApp, ih (fun o' ho' => h o' (List.mem_cons_of_mem _ ho')), h o (List.mem_cons_self ..),
      fit_map, List.map_append]

theorem colAppT_hom (E : Env) (ops : List Op) (h : ∀ o ∈ ops, Hom (denT E o)) : Hom (colAppT E ops) := by
  intro a y
  induction ops with
  | nil => rfl
  | cons o os ih =>
    rw [colAppT, colAppT, ih (fun o' ho' => h o' (List.mem_cons_of_mem _ ho')), h o (List.mem_cons_self ..),
      fit_map, List.map_append]

/-- both homogeneity laws at one operator -/
def HomAt (E : Env) (o : Op) : Prop := Hom (den E o) ∧ Hom (denT E o)

theorem homAt_leaf (E : Env) (h : LeafHom E) (u : Nat) (c : LeafCls) (p : Params) : HomAt E (.leaf u c p) :=
  ⟨fun a x => by rw [den]; exact h.1 u c p a x, fun a y => by rw [denT]; exact h.2 u c p a y⟩

theorem homAt_wrap (E : Env) (h : LeafHom E) (u : Nat) (k : WrapCls) (o : Op) (ih : HomAt E o) :
    HomAt E (.wrap u k o) := by
  obtain ⟨ih1, ih2⟩ := ih
  cases k with
  | inverse =>
    refine ⟨?_, ?_⟩
    · rw [den]; exact chooseInv_hom _ _
    · rw [denT]; exact chooseInv_hom _ _
  | diagInv =>
    by_cases hd : ∃ u' p, o = .leaf u' .diagonal p
    · obtain ⟨u', p, rfl⟩ := hd
      refine ⟨?_, ?_⟩
      · rw [den]; exact fun a x => h.1 _ _ _ a x
      · rw [denT]; exact fun a x => h.1 _ _ _ a x
    · have hd' : ∀ (u' : ℕ) (p : Params), o = leaf u' LeafCls.diagonal p → False :=
        fun u' p h => hd ⟨u', p, h⟩
      refine ⟨?_, ?_⟩
      · rw [den.eq_4 _ _ _ hd']; exact chooseInv_hom _ _
      · rw [denT.eq_4 _ _ _ hd']; exact chooseInv_hom _ _
  | transpose =>
    exact ⟨by rw [den.eq_5 _ _ _ _ (by simp) (by simp) (by simp)]; exact ih2,
      by rw [denT.eq_5 _ _ _ _ (by simp) (by simp) (by simp)]; exact ih1⟩
  | reshapeT =>
    exact ⟨by rw [den.eq_5 _ _ _ _ (by simp) (by simp) (by simp)]; exact ih2,
      by rw [denT.eq_5 _ _ _ _ (by simp) (by simp) (by simp)]; exact ih1⟩
  | qurotT =>
    exact ⟨by rw [den.eq_5 _ _ _ _ (by simp) (by simp) (by simp)]; exact ih2,
      by rw [denT.eq_5 _ _ _ _ (by simp) (by simp) (by simp)]; exact ih1⟩
  | obsT =>
    exact ⟨by rw [den.eq_5 _ _ _ _ (by simp) (by simp) (by simp)]; exact ih2,
      by rw [denT.eq_5 _ _ _ _ (by simp) (by simp) (by simp)]; exact ih1⟩

theorem homAt_comp (E : Env) (u : Nat) (ops : List Op) (ih : ∀ o ∈ ops, HomAt E o) : HomAt E (.comp u ops) :=
  ⟨by rw [den]; exact app_hom E ops fun o ho => (ih o ho).1,
   by rw [denT]; exact appT_hom E ops fun o ho => (ih o ho).2⟩

theorem homAt_cont (E : Env) (u : Nat) (k : ContCls) (td : TreeDef) (ops : List Op)
    (ih : ∀ o ∈ ops, HomAt E o) : HomAt E (.cont u k td ops) := by
  cases k with
  | add =>
    exact ⟨by rw [den]; exact sumApp_hom E ops fun o ho => (ih o ho).1,
      by rw [denT]; exact sumAppT_hom E ops fun o ho => (ih o ho).2⟩
  | blockRow =>
    exact ⟨by rw [den]; exact rowApp_hom E ops fun o ho => (ih o ho).1,
      by rw [denT]; exact colAppT_hom E ops fun o ho => (ih o ho).2⟩
  | blockDiag =>
    exact ⟨by rw [den]; exact diagApp_hom E ops fun o ho => (ih o ho).1,
      by rw [denT]; exact diagAppT_hom E ops fun o ho => (ih o ho).2⟩
  | blockCol =>
    exact ⟨by rw [den]; exact colApp_hom E ops fun o ho => (ih o ho).1,
      by rw [denT]; exact rowAppT_hom E ops fun o ho => (ih o ho).2⟩

mutual
theorem homAt (E : Env) (h : LeafHom E) : ∀ o, HomAt E o
  | .leaf u c p => homAt_leaf E h u c p
  | .wrap u k o => homAt_wrap E h u k o (homAt E h o)
  | .comp u ops => homAt_comp E u ops (homAtList E h ops)
  | .cont u k td ops => homAt_cont E u k td ops (homAtList E h ops)
theorem homAtList (E : Env) (h : LeafHom E) : ∀ ops : List Op, ∀ o ∈ ops, HomAt E o
  | [] => fun _ ho => by simp at ho
  | o :: os => by
      intro o' ho'
      rcases List.mem_cons.mp ho' with heq | ho'
      · rw [heq]; exact homAt E h o
      · exact homAtList E h os o' ho'
end

/-- **every operator commutes with multiplication by a scalar, on all inputs**, given that the leaf kernels do
(no well-formedness is needed) -/
theorem homLaw (E : Env) (h : LeafHom E) : HomLaw E :=
  ⟨fun o => (homAt E h o).1, fun o => (homAt E h o).2⟩

/-! ### lazy inverses -/

/-- the denotation ignores the Python identity of a wrapper -/
theorem den_wrap_uid (E : Env) (u : Nat) (k : WrapCls) (o : Op) :
    den E (.wrap u k o) = den E (.wrap 0 k o) := by
  cases k with
  | inverse => rw [den, den]
  | diagInv =>
    by_cases hd : ∃ u' p, o = .leaf u' .diagonal p
    · obtain ⟨u', p, rfl⟩ := hd
      rw [den, den]
    · have hd' : ∀ (u' : ℕ) (p : Params), o = leaf u' LeafCls.diagonal p → False :=
        fun u' p h => hd ⟨u', p, h⟩
      rw [den.eq_4 _ _ _ hd', den.eq_4 _ _ _ hd']
  | transpose =>
    rw [den.eq_5 _ _ _ _ (by simp) (by simp) (by simp), den.eq_5 _ _ _ _ (by simp) (by simp) (by simp)]
  | reshapeT =>
    rw [den.eq_5 _ _ _ _ (by simp) (by simp) (by simp), den.eq_5 _ _ _ _ (by simp) (by simp) (by simp)]
  | qurotT =>
    rw [den.eq_5 _ _ _ _ (by simp) (by simp) (by simp), den.eq_5 _ _ _ _ (by simp) (by simp) (by simp)]
  | obsT =>
    rw [den.eq_5 _ _ _ _ (by simp) (by simp) (by simp), den.eq_5 _ _ _ _ (by simp) (by simp) (by simp)]

theorem denT_wrap_uid (E : Env) (u : Nat) (k : WrapCls) (o : Op) :
    denT E (.wrap u k o) = denT E (.wrap 0 k o) := by
  cases k with
  | inverse => rw [denT, denT]
  | diagInv =>
    by_cases hd : ∃ u' p, o = .leaf u' .diagonal p
    · obtain ⟨u', p, rfl⟩ := hd
      rw [denT, denT]
    · have hd' : ∀ (u' : ℕ) (p : Params), o = leaf u' LeafCls.diagonal p → False :=
        fun u' p h => hd ⟨u', p, h⟩
      rw [denT.eq_4 _ _ _ hd', denT.eq_4 _ _ _ hd']
  | transpose =>
    rw [denT.eq_5 _ _ _ _ (by simp) (by simp) (by simp), denT.eq_5 _ _ _ _ (by simp) (by simp) (by simp)]
  | reshapeT =>
    rw [denT.eq_5 _ _ _ _ (by simp) (by simp) (by simp), denT.eq_5 _ _ _ _ (by simp) (by simp) (by simp)]
  | qurotT =>
    rw [denT.eq_5 _ _ _ _ (by simp) (by simp) (by simp), denT.eq_5 _ _ _ _ (by simp) (by simp) (by simp)]
  | obsT =>
    rw [denT.eq_5 _ _ _ _ (by simp) (by simp) (by simp), denT.eq_5 _ _ _ _ (by simp) (by simp) (by simp)]

theorem inS_wrap_uid (u : Nat) (k : WrapCls) (o : Op) : Op.inS (.wrap u k o) = Op.inS (.wrap 0 k o) := by
  cases k <;> rfl

theorem outS_wrap_uid (u : Nat) (k : WrapCls) (o : Op) : Op.outS (.wrap u k o) = Op.outS (.wrap 0 k o) := by
  cases k <;> rfl

/-- on vectors of the right length `chooseInv` IS the chosen inverse -/
theorem chooseInv_eq_choose (n : Nat) (f : V → V) (h : ∃ g, IsInvOn n f g) (x : V) (hx : x.length = n) :
    chooseInv n f x = Classical.choose h x := by
  unfold chooseInv
  rw [dif_pos h]
  show fit n (Classical.choose h (fit n x)) = _
  rw [fit_eq_self hx, fit_eq_self ((Classical.choose_spec h).1 x hx).1]

/-- an inverse on vectors of length `n` is unique there -/
theorem isInvOn_unique (n : Nat) (f g g' : V → V) (hg : IsInvOn n f g) (hg' : IsInvOn n f g') (x : V)
    (hx : x.length = n) : g x = g' x := by
  have h1 := (hg.1 x hx)
  have h2 := hg'.1 (g x) h1.1
  rw [← h2.2.2, h1.2.1]

/-- whenever `f` has an inverse on vectors of length `n`, `chooseInv n f` is that inverse there -/
theorem chooseInv_eq (n : Nat) (f g : V → V) (hg : IsInvOn n f g) (x : V) (hx : x.length = n) :
    chooseInv n f x = g x := by
  rw [chooseInv_eq_choose n f ⟨g, hg⟩ x hx]
  exact isInvOn_unique n f _ g (Classical.choose_spec (⟨g, hg⟩ : ∃ g, IsInvOn n f g)) hg x hx

/-- right inverse: needs nothing of `f` -/
theorem chooseInv_right (n : Nat) (f : V → V) (h : ∃ g, IsInvOn n f g) (x : V) (hx : x.length = n) :
    f (chooseInv n f x) = x := by
  rw [chooseInv_eq_choose n f h x hx]
  exact ((Classical.choose_spec h).1 x hx).2.1

/-- left inverse: at the points where `f` keeps the length (all of them when `f = den E o`, `o` square and
structurally well formed) -/
theorem chooseInv_left (n : Nat) (f : V → V) (h : ∃ g, IsInvOn n f g) (x : V) (hx : x.length = n)
    (hfx : (f x).length = n) : chooseInv n f (f x) = x := by
  rw [chooseInv_eq_choose n f h (f x) hfx]
  exact ((Classical.choose_spec h).1 x hx).2.2

/-- **characterisation of `chooseInv`**: if `f` has an inverse on vectors of length `n` (and keeps that length —
without this `chooseInv n f (f x)` normalises `f x` first), `chooseInv n f` inverts `f` on those vectors -/
theorem chooseInv_spec (n : Nat) (f : V → V) (h : ∃ g, IsInvOn n f g)
    (hf : ∀ x, x.length = n → (f x).length = n) : IsInvOn n f (chooseInv n f) :=
  ⟨fun x hx => ⟨chooseInv_length n f x, chooseInv_right n f h x hx, chooseInv_left n f h x hx (hf x hx)⟩,
   fun a x _ => chooseInv_hom n f a x⟩

/-- `den E (.wrap 0 k o)` is a two-sided inverse of `den E o` (on vectors of the declared input sizes) -/
def invertibleK (E : Env) (k : WrapCls) (o : Op) : Prop :=
  (∀ x, x.length = inSize o → den E (.wrap 0 k o) (den E o x) = x) ∧
  (∀ x, x.length = inSize (.wrap 0 k o) → den E o (den E (.wrap 0 k o) x) = x)

/-- **the invertibility predicate in the shape `ArithSem.invertible` wants**: each of the three lazy-inverse
wrappers of `o` denotes a two-sided inverse of `den E o`.

NOTE: `ArithSem.inv_left/inv_right` quantify over the three classes independently of the operand, so this
predicate also speaks of `QURotationTransposeOperator(o)` (denoted by `denT E o`) for operands that are not
rotations: it forces `denT E o ∘ den E o = id` (`invertible_orthogonal`).  `invertibleG` below is the
predicate restricted to the wrappers the constructors can build. -/
def invertible (E : Env) (o : Op) : Prop := ∀ k : WrapCls, k.isLazy → invertibleK E k o

theorem inv_left (E : Env) (u : Nat) (k : WrapCls) (o : Op) (hi : invertible E o)
    (hk : k = .inverse ∨ k = .qurotT ∨ k = .diagInv) (x : V) (hx : mem (Op.inS o) x) :
    den E (.wrap u k o) (den E o x) = x := by
  rw [den_wrap_uid]
  exact (hi k hk).1 x hx

theorem inv_right (E : Env) (u : Nat) (k : WrapCls) (o : Op) (hi : invertible E o)
    (hk : k = .inverse ∨ k = .qurotT ∨ k = .diagInv) (x : V) (hx : mem (Op.inS (.wrap u k o)) x) :
    den E o (den E (.wrap u k o) x) = x := by
  rw [den_wrap_uid]
  rw [inS_wrap_uid] at hx
  exact (hi k hk).2 x hx

/-- the same, for the wrappers that pass their constructor (`WrapOK`: a `QURotationTransposeOperator` wraps a
`QURotationOperator`) -/
def invertibleG (E : Env) (o : Op) : Prop :=
  ∀ k : WrapCls, k.isLazy → (k = .qurotT → o.isQURot = true) → invertibleK E k o

theorem invertibleG_of_invertible (E : Env) (o : Op) (h : invertible E o) : invertibleG E o :=
  fun k hk _ => h k hk

theorem inv_leftG (E : Env) (u : Nat) (k : WrapCls) (o : Op) (hi : invertibleG E o)
    (hk : k = .inverse ∨ k = .qurotT ∨ k = .diagInv) (hq : k = .qurotT → o.isQURot = true)
    (x : V) (hx : mem (Op.inS o) x) : den E (.wrap u k o) (den E o x) = x := by
  rw [den_wrap_uid]
  exact (hi k hk hq).1 x hx

theorem inv_rightG (E : Env) (u : Nat) (k : WrapCls) (o : Op) (hi : invertibleG E o)
    (hk : k = .inverse ∨ k = .qurotT ∨ k = .diagInv) (hq : k = .qurotT → o.isQURot = true)
    (x : V) (hx : mem (Op.inS (.wrap u k o)) x) : den E o (den E (.wrap u k o) x) = x := by
  rw [den_wrap_uid]
  rw [inS_wrap_uid] at hx
  exact (hi k hk hq).2 x hx

/-- `invertible` forces the transpose to be the inverse (it speaks of `QURotationTransposeOperator(o)` too) -/
theorem invertible_orthogonal (E : Env) (o : Op) (h : invertible E o) (x : V) (hx : x.length = inSize o) :
    denT E o (den E o x) = x := by
  have := (h .qurotT (.inr (.inl rfl))).1 x hx
  rwa [den.eq_5 _ _ _ _ (by simp) (by simp) (by simp)] at this

/-- `InverseOperator(o)` of a square, structurally well-formed operand that has an inverse -/
theorem invertibleK_inverse (E : Env) (o : Op) (hs : StructOK o) (hsq : Op.inS o = Op.outS o)
    (h : ∃ g, IsInvOn (inSize o) (den E o) g) : invertibleK E .inverse o := by
  refine ⟨fun x hx => ?_, fun x hx => ?_⟩
  · rw [den]
    exact chooseInv_left _ _ h x hx (by rw [den_length E o hs, outSize, ← hsq, inSize])
  · rw [den]
    refine chooseInv_right _ _ h x ?_
    rw [hx]; simp [inSize, Op.inS, hsq]

/-- `DiagonalInverseOperator(o)` when `o` is not a `DiagonalOperator` leaf is denoted like `InverseOperator(o)` -/
theorem invertibleK_diagInv (E : Env) (o : Op) (hnd : ∀ u p, o ≠ .leaf u .diagonal p) (hs : StructOK o)
    (hsq : Op.inS o = Op.outS o) (h : ∃ g, IsInvOn (inSize o) (den E o) g) : invertibleK E .diagInv o := by
  have hd' : ∀ (u' : ℕ) (p : Params), o = leaf u' LeafCls.diagonal p → False := fun u' p h => hnd u' p h
  refine ⟨fun x hx => ?_, fun x hx => ?_⟩
  · rw [den.eq_4 _ _ _ hd']
    exact chooseInv_left _ _ h x hx (by rw [den_length E o hs, outSize, ← hsq, inSize])
  · rw [den.eq_4 _ _ _ hd']
    refine chooseInv_right _ _ h x ?_
    rw [hx]; simp [inSize, Op.inS]

/-- **sufficient condition for `invertibleG`**: a square, structurally well-formed operand with an inverse;
when it is a rotation its transpose is that inverse, when it is a diagonal leaf the diagonal of the
pseudo-inverse values is (two leaf laws, discharged with the kernels) -/
theorem invertibleG_of (E : Env) (o : Op) (hs : StructOK o) (hsq : Op.inS o = Op.outS o)
    (h : ∃ g, IsInvOn (inSize o) (den E o) g)
    (hrot : o.isQURot = true → invertibleK E .qurotT o)
    (hdiag : ∀ u p, o = .leaf u .diagonal p → invertibleK E .diagInv o) : invertibleG E o := by
  intro k hk hq
  rcases hk with rfl | rfl | rfl
  · exact invertibleK_inverse E o hs hsq h
  · exact hrot (hq rfl)
  · by_cases hd : ∃ u p, o = .leaf u .diagonal p
    · obtain ⟨u, p, he⟩ := hd
      exact hdiag u p he
    · exact invertibleK_diagInv E o (fun u p he => hd ⟨u, p, he⟩) hs hsq h

/-! ### the laws, in the shape of `OpSem` / `ArithSem`

`mem s x := x.length = s.size`, `smul := vsmul`, `add := vadd`, `zero := []`. -/

namespace Laws

theorem honest (E : Env) (o : Op) (ho : StructOK o) (x : V) (_hx : mem (Op.inS o) x) :
    mem (Op.outS o) (den E o x) := den_length E o ho x

/-- the transpose is honest too -/
theorem honestT (E : Env) (o : Op) (ho : StructOK o) (y : V) (_hy : mem (Op.outS o) y) :
    mem (Op.inS o) (denT E o y) := denT_length E o ho y

theorem smul_one (x : V) : vsmul 1 x = x := vsmul_one x

theorem smul_smul (a b : Rat) (x : V) : vsmul a (vsmul b x) = vsmul (a * b) x := vsmul_vsmul a b x

theorem mem_smul (s : Struct) (a : Rat) (x : V) (h : mem s x) : mem s (vsmul a x) := by
  unfold mem at *
  rw [vsmul_length, h]

theorem identity_law (E : Env) (o : Op) (h : o.isIdentity = true) (x : V) (hx : mem (Op.inS o) x) :
    den E o x = x := by
  cases o with
  | leaf u c p =>
    have hc : LeafCls.identity = c := by simpa [isIdentity, isLeafCls] using h
    subst hc
    have hx' : x.length = p.inS.size := hx
    rw [den]
    simp only [leafDen, squareLeaf, if_true]
    rw [fit_eq_self hx', fit_eq_self hx']
  | _ => simp [isIdentity, isLeafCls] at h

theorem homothety_law (E : Env) (o : Op) (h : o.isHomothety = true) (x : V) (hx : mem (Op.inS o) x) :
    den E o x = vsmul (homValue o) x := by
  cases o with
  | leaf u c p =>
    have hc : LeafCls.homothety = c := by simpa [isHomothety, isLeafCls] using h
    subst hc
    have hx' : x.length = p.inS.size := hx
    rw [den]
    simp only [leafDen, squareLeaf, if_true, homValue]
    rw [fit_eq_self hx', fit_eq_self (by rw [vsmul_length, hx'])]
  | _ => simp [isHomothety, isLeafCls] at h

/-- every operator commutes with the scalar action, on all inputs, for every operator (no guard needed) -/
theorem homogeneous (E : Env) (hE : LeafHom E) (o : Op) (a : Rat) (x : V) :
    den E o (vsmul a x) = vsmul a (den E o x) := (homLaw E hE).1 o (a : ℝ) x

theorem homogeneousT (E : Env) (hE : LeafHom E) (o : Op) (a : Rat) (y : V) :
    denT E o (vsmul a y) = vsmul a (denT E o y) := (homLaw E hE).2 o (a : ℝ) y

theorem comp_law (E : Env) (u : Nat) (ops : List Op) (x : V) : den E (.comp u ops) x = app E ops x := by
  rw [den]

/-- `Sem.app` of the framework is the recursion `ListSem.app` -/
theorem sem_app_eq (E : Env) (sem : Sem Op V Struct) (hd : sem.den = den E) (ops : List Op) (x : V) :
    sem.app ops x = app E ops x := by
  induction ops with
  | nil => rfl
  | cons o os ih => rw [Sem.app, app, ih, hd]

theorem comp_law_sem (E : Env) (sem : Sem Op V Struct) (hd : sem.den = den E) (u : Nat) (ops : List Op)
    (x : V) : den E (.comp u ops) x = sem.app ops x := by
  rw [sem_app_eq E sem hd, comp_law]

theorem sumApp_eq_foldr (E : Env) (ops : List Op) (x : V) :
    sumApp E ops x = (ops.map fun o => den E o x).foldr vadd [] := by
  induction ops with
  | nil => rfl
  | cons o os ih => rw [sumApp, ih]; rfl

theorem add_law (E : Env) (u : Nat) (td : TreeDef) (ops : List Op) (x : V) :
    den E (.cont u .add td ops) x = (ops.map fun o => den E o x).foldr vadd [] := by
  rw [den, sumApp_eq_foldr]

theorem add_assoc (x y z : V) : vadd (vadd x y) z = vadd x (vadd y z) := vadd_assoc x y z

theorem zero_add (x : V) : vadd [] x = x := vadd_nil_left x

theorem add_zero (x : V) : vadd x [] = x := vadd_nil_right x

theorem smul_sum (a : Rat) (l : List V) : vsmul a (l.foldr vadd []) = (l.map (vsmul a)).foldr vadd [] := by
  induction l with
  | nil => rfl
  | cons v l ih => rw [List.foldr_cons, vsmul_vadd, ih]; rfl

end Laws

/-! ### `invertible` (all three wrapper classes at once) is too strong for a non-orthogonal operand -/

/-- one `float64` scalar leaf -/
def scalarStruct : Struct := ⟨[Tok.leaf], [⟨[], .f64⟩]⟩

/-- `2 * I` on one scalar: it has an inverse (`InverseOperator(2 I)` is fine), but `invertible` fails, because
`ArithSem.inv_left` also speaks of `QURotationTransposeOperator(2 I)` -/
theorem not_invertible_homothety (E : Env) :
    ¬ invertible E (mkHomothety 2 scalarStruct) := by
  intro h
  have h1 := invertible_orthogonal E _ h [1] rfl
  rw [mkHomothety, den, denT] at h1
  have h2 : (2 : ℝ) * 2 = 1 := by
    simpa [leafDen, leafDenT, squareLeaf, scalarStruct, Struct.size, LeafS.size, prodNat, Tensor.scalar, vsmul,
      fit, List.takeD] using h1
  norm_num at h2

/-- … while `invertibleG` (and `invertibleK E .inverse`, `invertibleK E .diagInv`) hold for it -/
theorem invertibleG_homothety (E : Env) : invertibleG E (mkHomothety 2 scalarStruct) := by
  refine invertibleG_of E _ (by simp [StructOK, mkHomothety, WTExpr]) rfl ?_ (fun h => ?_) (fun u p h => ?_)
  · refine ⟨fun x => fit 1 (vsmul (1 / 2) (fit 1 x)), fun x hx => ?_, fun a x hx => ?_⟩
    · obtain ⟨v, rfl⟩ := List.length_eq_one_iff.mp hx
      rw [mkHomothety, den]
      simp [leafDen, squareLeaf, scalarStruct, Struct.size, LeafS.size, prodNat, Tensor.scalar, vsmul, fit,
        List.takeD, inSize, Op.inS]
    · obtain ⟨v, rfl⟩ := List.length_eq_one_iff.mp hx
      simp [vsmul, fit, List.takeD]
      ring
  · simp [mkHomothety, isQURot, isLeafCls] at h
  · simp [mkHomothety] at h

/-! ### packaging

The laws above are packaged into the REAL structures `OpSem` / `ArithSem` / `RuleLaws` / `ContainerLaws` of the
framework in FuraxProofs/Sem/ListModel.lean (`listOpSem`, `listArithSem` with `invertible := invertibleG E`,
`listRuleLaws`, `listContainerLaws`, `reduce_sound_closed`).  (A local packaging against guarded copies of the
structures used to live here; it is superseded.) -/

end ListSem
end Furax
