/-
Interfaces between the files that establish the laws of the list denotation (FuraxProofs/Sem/ListSem.lean):
named propositions, so that each file can be developed against the others' results.
-/
import FuraxProofs.Sem.ListSem
import FuraxProofs.Lemmas.RuleSound
namespace Furax
namespace ListSem
open Op

/- structural well-formedness (every composition is a non-empty chain with matching adjacent structures, every
container is non-empty and its operands fit together, lazy inverses wrap square operands — what the constructors
guarantee whatever the leaves are) is `Furax.StructOK` (FuraxProofs/Lemmas/WellFormed.lean), the guard of the laws
`honest` / `homogeneous` of `Sem` / `OpSem` / `AdjCore`; `ListSem.StructOK` is an alias of it. -/
export Furax (StructOK)

/-- every structurally well-formed operator returns a vector of its declared output size, whatever the input -/
def LenLaw (E : Env) : Prop :=
  (∀ o, StructOK o → ∀ x, (den E o x).length = Op.outSize o) ∧
  (∀ o, StructOK o → ∀ y, (denT E o y).length = Op.inSize o)

/-- leaf kernels commute with multiplication by a scalar -/
def LeafHom (E : Env) : Prop :=
  (∀ u c p (a : ℝ) x, leafDen E u c p (x.map fun v => a * v) = (leafDen E u c p x).map fun v => a * v) ∧
  (∀ u c p (a : ℝ) y, leafDenT E u c p (y.map fun v => a * v) = (leafDenT E u c p y).map fun v => a * v)

/-- every operator commutes with multiplication by a scalar -/
def HomLaw (E : Env) : Prop :=
  (∀ o (a : ℝ) x, den E o (x.map fun v => a * v) = (den E o x).map fun v => a * v) ∧
  (∀ o (a : ℝ) y, denT E o (y.map fun v => a * v) = (denT E o y).map fun v => a * v)

end ListSem
end Furax
