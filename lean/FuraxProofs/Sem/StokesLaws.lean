/-
Polarimetry laws of the list denotation (FuraxProofs/Sem/ListSem.lean): QU rotations, half-wave plate, linear
polariser.  The statements have the shape of the fields `qurot_inv`, `rot_rot`, `rot_rotT`, `rotT_rot`,
`rotT_rotT`, `rot_hwp`, `rotT_hwp`, `polarizer_hwp` of `RuleLaws` (FuraxProofs/Lemmas/RuleSound.lean), with
`A.den := den E`, `A.mem s x := x.length = s.size`, `leafOK := stokesOK`.
-/
import FuraxProofs.Sem.ListSemLaws
import FuraxProofs.Lemmas.DiagonalSpec
import FuraxProofs.Props.C15
import Mathlib.Analysis.SpecialFunctions.Trigonometric.Basic
import Mathlib.Tactic.Ring
import Mathlib.Tactic.Linarith
namespace Furax
namespace ListSem
open Op

/-! ### `fit`, `chunks` -/

private theorem fit_length (n : Nat) (x : V) : (fit n x).length = n := by simp [fit]

private theorem fit_of_length {n : Nat} {x : V} (h : x.length = n) : fit n x = x := by
  subst h; simp [fit, List.takeD_eq_take]

private theorem headChunk_append {n : Nat} (l r : V) (h : l.length = n) : headChunk n (l ++ r) = l := by
  subst h; simp [headChunk, fit_of_length]

/-- chunking a concatenation of rows of the right lengths returns the rows -/
private theorem chunks_flatten (L : List V) : chunks (L.map List.length) L.flatten = L := by
  induction L with
  | nil => rfl
  | cons l L ih =>
    simp only [List.map_cons, List.flatten_cons, chunks]
    rw [headChunk_append l _ rfl, List.drop_left, ih]

private theorem chunks_length (ns : List Nat) (x : V) : (chunks ns x).length = ns.length := by
  induction ns generalizing x with
  | nil => rfl
  | cons n ns ih => simp [chunks, ih]

theorem chunks_getElem_length (ns : List Nat) (x : V) (c : Nat) (h : c < (chunks ns x).length) :
    ((chunks ns x)[c]).length = ns[c]'(by rw [chunks_length] at h; exact h) := by
  induction ns generalizing x c with
  | nil => simp [chunks] at h
  | cons n ns ih =>
    cases c with
    | zero => simp [chunks, headChunk, fit_length]
    | succ c => simp only [chunks, List.getElem_cons_succ]; exact ih _ _ _

/-- the chunks of a vector of the right total length concatenate to the vector -/
theorem chunks_flatten_eq (ns : List Nat) (x : V) (h : x.length = ns.sum) : (chunks ns x).flatten = x := by
  induction ns generalizing x with
  | nil => simp at h; simp [chunks, h]
  | cons n ns ih =>
    simp only [List.sum_cons] at h
    simp only [chunks, List.flatten_cons]
    rw [ih (x.drop n) (by simp; omega)]
    have : headChunk n x = x.take n := by
      unfold headChunk; exact fit_of_length (by simp; omega)
    rw [this, List.take_append_drop]

/-! ### samples of Stokes vectors -/

/-- the number of components of a kind -/
def ncomp (k : StokesKind) : Nat := (SV.present k (default : SV ℝ)).length

theorem present_length (k : StokesKind) (v : SV ℝ) : (SV.present k v).length = ncomp k := by
  cases k <;> rfl

theorem kindOf_ncomp {m : Nat} {k : StokesKind} (h : kindOf m = some k) : m = ncomp k := by
  unfold kindOf at h
  split at h <;> simp at h <;> subst h <;> rfl

/-- the Stokes vector of sample `t` of a flat vector of `ncomp k` components of `n` samples -/
def svAt (k : StokesKind) (n : Nat) (x : V) (t : Nat) : SV ℝ :=
  SV.ofPresent k ((chunks (List.replicate (ncomp k) n) x).map fun c => c.getD t 0) 0

theorem stokesMap_eq (k : StokesKind) (n : Nat) (g : Nat → SV ℝ → SV ℝ) (x : V) :
    stokesMap k n g x = ((List.range (ncomp k)).map fun c => (List.range n).map fun t =>
      (SV.present k (g t (svAt k n x t))).getD c 0).flatten := rfl

theorem polMap_eq (k : StokesKind) (n : Nat) (x : V) :
    polMap k n x = (List.range n).map fun t => SV.pol (1 / 2 : ℝ) k (svAt k n x t) := rfl

theorem stokesMap_length (k : StokesKind) (n : Nat) (g : Nat → SV ℝ → SV ℝ) (x : V) :
    (stokesMap k n g x).length = ncomp k * n := by
  rw [stokesMap_eq, List.length_flatten]
  simp [Function.comp_def]

theorem polMap_length (k : StokesKind) (n : Nat) (x : V) : (polMap k n x).length = n := by
  simp [polMap_eq]

/-- `stokesMap` depends on the sample maps only through the present components, sample by sample -/
theorem stokesMap_congr (k : StokesKind) (n : Nat) (g g' : Nat → SV ℝ → SV ℝ) (x x' : V)
    (h : ∀ t, t < n → SV.present k (g t (svAt k n x t)) = SV.present k (g' t (svAt k n x' t))) :
    stokesMap k n g x = stokesMap k n g' x' := by
  rw [stokesMap_eq, stokesMap_eq]
  congr 1
  apply List.map_congr_left
  intro c _
  apply List.map_congr_left
  intro t ht
  rw [h t (List.mem_range.mp ht)]

theorem polMap_congr (k : StokesKind) (n : Nat) (x x' : V)
    (h : ∀ t, t < n → SV.pol (1 / 2 : ℝ) k (svAt k n x t) = SV.pol (1 / 2 : ℝ) k (svAt k n x' t)) :
    polMap k n x = polMap k n x' := by
  rw [polMap_eq, polMap_eq]
  apply List.map_congr_left
  intro t ht
  exact h t (List.mem_range.mp ht)

theorem range_map_getD (l : List ℝ) : ((List.range l.length).map fun c => l.getD c 0) = l := by
  apply List.ext_getElem
  · simp
  · intro i h1 h2
    simp only [List.getElem_map, List.getElem_range]
    exact List.getD_eq_getElem _ _ h2

/-- the sample `t` of the result of `stokesMap` -/
theorem svAt_stokesMap (k : StokesKind) (n : Nat) (g : Nat → SV ℝ → SV ℝ) (x : V) (t : Nat) (ht : t < n) :
    svAt k n (stokesMap k n g x) t = SV.ofPresent k (SV.present k (g t (svAt k n x t))) 0 := by
  conv => lhs; unfold svAt
  rw [stokesMap_eq]
  set L := (List.range (ncomp k)).map fun c => (List.range n).map fun t =>
      (SV.present k (g t (svAt k n x t))).getD c 0 with hL
  have hlen : L.map List.length = List.replicate (ncomp k) n := by
    rw [hL]
    apply List.ext_getElem <;> simp
  rw [← hlen, chunks_flatten, hL, List.map_map]
  congr 1
  have : ((fun (c : V) => c.getD t 0) ∘ fun c => (List.range n).map fun t =>
      (SV.present k (g t (svAt k n x t))).getD c 0) =
      fun c => (SV.present k (g t (svAt k n x t))).getD c 0 := by
    funext c
    simp only [Function.comp]
    rw [List.getD_eq_getElem _ _ (by simp; exact ht)]
    simp
  rw [this, ← present_length k (g t (svAt k n x t)), range_map_getD]

theorem present_ofPresent (k : StokesKind) (l : List ℝ) (h : l.length = ncomp k) :
    SV.present k (SV.ofPresent k l 0) = l := by
  cases k <;> simp only [ncomp, SV.present, List.length_cons, List.length_nil] at h
  · match l, h with
    | [a], _ => rfl
  · match l, h with
    | [a, b], _ => rfl
  · match l, h with
    | [a, b, c], _ => rfl
  · match l, h with
    | [a, b, c, d], _ => rfl

/-- a sample map that does not change the present components leaves the vector as it is -/
theorem stokesMap_id (k : StokesKind) (n : Nat) (g : Nat → SV ℝ → SV ℝ) (x : V) (hx : x.length = ncomp k * n)
    (h : ∀ t, t < n → SV.present k (g t (svAt k n x t)) = SV.present k (svAt k n x t)) :
    stokesMap k n g x = x := by
  rw [stokesMap_eq]
  have hsum : x.length = (List.replicate (ncomp k) n).sum := by simp [hx]
  conv => rhs; rw [← chunks_flatten_eq _ x hsum]
  congr 1
  have hcl : (chunks (List.replicate (ncomp k) n) x).length = ncomp k := by simp [chunks_length]
  apply List.ext_getElem
  · simp [hcl]
  · intro c h1 h2
    have hc : c < ncomp k := by simpa using h1
    have hcn : ((chunks (List.replicate (ncomp k) n) x)[c]).length = n := by
      rw [chunks_getElem_length]; simp
    simp only [List.getElem_map, List.getElem_range]
    apply List.ext_getElem
    · simp [hcn]
    · intro t h3 h4
      have ht : t < n := by simpa using h3
      simp only [List.getElem_map, List.getElem_range]
      rw [h t ht, svAt, present_ofPresent _ _ (by simp [hcl])]
      rw [List.getD_eq_getElem _ _ (by simp [hcl]; exact hc)]
      simp only [List.getElem_map]
      exact List.getD_eq_getElem _ _ h4

/-! ### broadcasting to a shape of higher rank -/

open Furax.Axes Furax.Diagonal

/-- `s` broadcasts to `S` (NumPy, right-aligned): the rank of `s` is at most that of `S` and every dimension of
`s` is 1 or the dimension of `S` it is aligned with -/
def Bc (s S : List Nat) : Prop :=
  s.length ≤ S.length ∧
    ∀ j, j < s.length → s.getD j 0 = 1 ∨ s.getD j 0 = S.getD (j + (S.length - s.length)) 0

instance (s S : List Nat) : Decidable (Bc s S) := by unfold Bc; infer_instance

theorem bcastIndex_length' (s oi : List Nat) (h : s.length ≤ oi.length) :
    (bcastIndex s oi).length = s.length := by
  simp [bcastIndex]; omega

theorem bcastIndex_getD' (s oi : List Nat) (h : s.length ≤ oi.length) (j : Nat) (hj : j < s.length) :
    (bcastIndex s oi).getD j 0 = if s.getD j 0 = 1 then 0 else oi.getD (j + (oi.length - s.length)) 0 := by
  rw [List.getD_eq_getElem _ _ (by rw [bcastIndex_length' s oi h]; exact hj),
    List.getD_eq_getElem _ _ hj, List.getD_eq_getElem _ _ (by omega : j + (oi.length - s.length) < oi.length)]
  simp [bcastIndex, Nat.add_comm]

/-- a valid index of `S` is mapped to a valid index of a shape that broadcasts to `S` -/
theorem bcastIndex_valid (s S oi : List Nat) (hb : Bc s S) (h : List.Forall₂ (· < ·) oi S) :
    List.Forall₂ (· < ·) (bcastIndex s oi) s := by
  rw [forall2_lt_iff] at h ⊢
  obtain ⟨h1, h2⟩ := h
  obtain ⟨b1, b2⟩ := hb
  refine ⟨bcastIndex_length' s oi (by omega), fun j hj => ?_⟩
  rw [bcastIndex_getD' s oi (by omega) j hj]
  have := h2 (j + (S.length - s.length)) (by omega)
  rcases b2 j hj with e | e
  · rw [if_pos e, e]; omega
  · split
    · omega
    · rw [h1, e]; exact this

/-- broadcasting in two steps reads the same entry as broadcasting at once -/
theorem bcastIndex_bcastIndex (p s oi : List Nat) (hps : Bc p s) (hs : s.length ≤ oi.length) :
    bcastIndex p (bcastIndex s oi) = bcastIndex p oi := by
  obtain ⟨b1, b2⟩ := hps
  have hl := bcastIndex_length' s oi hs
  apply List.ext_getElem
  · rw [bcastIndex_length' _ _ (by omega), bcastIndex_length' _ _ (by omega)]
  · intro j h1 h2
    have hj : j < p.length := by rw [bcastIndex_length' _ _ (by omega)] at h1; exact h1
    have e1 := bcastIndex_getD' p (bcastIndex s oi) (by omega) j hj
    have e2 := bcastIndex_getD' p oi (by omega) j hj
    rw [List.getD_eq_getElem _ _ h1] at e1
    rw [List.getD_eq_getElem _ _ h2] at e2
    rw [e1, e2]
    split
    · rfl
    · rename_i hne
      rw [hl, bcastIndex_getD' s oi hs _ (by omega)]
      rcases b2 j hj with e | e
      · exact absurd e hne
      · rw [← e, if_neg hne]
        congr 1; omega

theorem option_mapM_some {β γ : Type} (f : β → Option γ) (l : List β) (r : List γ) (h : l.mapM f = some r) :
    r.length = l.length ∧ ∀ j (h1 : j < l.length) (h2 : j < r.length), f l[j] = some r[j] := by
  induction l generalizing r with
  | nil => simp at h; subst h; simp
  | cons b bs ih =>
    rw [List.mapM_cons] at h
    cases hb : f b with
    | none => simp [hb] at h
    | some c =>
      cases hbs : bs.mapM f with
      | none => simp [hb, hbs] at h
      | some cs =>
        simp [hb, hbs] at h
        subst h
        obtain ⟨i1, i2⟩ := ih cs hbs
        refine ⟨by simp [i1], fun j h1 h2 => ?_⟩
        cases j with
        | zero => simpa using hb
        | succ j => simpa using i2 j (by simpa using h1) (by simpa using h2)

theorem padded_getD (a : List Nat) (n j : Nat) :
    (List.replicate (n - a.length) 1 ++ a).getD j 0 =
      if j < n - a.length then 1 else a.getD (j - (n - a.length)) 0 := by
  split
  · rename_i h
    rw [List.getD_append _ _ _ _ (by simpa using h), List.getD_eq_getElem _ _ (by simpa using h)]
    simp
  · rename_i h
    rw [List.getD_append_right _ _ _ _ (by simp; omega)]
    simp

/-- the broadcast of two shapes that both broadcast to `S`: both broadcast to it, and it broadcasts to `S` -/
theorem broadcastShapes_Bc (a b s S : List Nat) (h : broadcastShapes a b = some s) (ha : Bc a S) (hb : Bc b S) :
    Bc a s ∧ Bc b s ∧ Bc s S := by
  unfold broadcastShapes at h
  obtain ⟨hlen, hget⟩ := option_mapM_some _ _ _ h
  simp only [List.length_zip, List.length_append, List.length_replicate] at hlen
  have hn : s.length = max a.length b.length := by omega
  -- the three cases of the dimension rule
  have key : ∀ j, j < s.length →
      let x := (List.replicate (max a.length b.length - a.length) 1 ++ a).getD j 0
      let y := (List.replicate (max a.length b.length - b.length) 1 ++ b).getD j 0
      (s.getD j 0 = x ∨ s.getD j 0 = y) ∧ (x = s.getD j 0 ∨ x = 1) ∧ (y = s.getD j 0 ∨ y = 1) := by
    intro j hj
    have hz : j < ((List.replicate (max a.length b.length - a.length) 1 ++ a).zip
        (List.replicate (max a.length b.length - b.length) 1 ++ b)).length := by
      simp only [List.length_zip, List.length_append, List.length_replicate]; omega
    have hg := hget j hz hj
    simp only [List.getElem_zip] at hg
    rw [List.getD_eq_getElem _ _ (by simp; omega), List.getD_eq_getElem _ _ (by simp; omega),
      List.getD_eq_getElem _ _ hj]
    intro x y
    simp only [x, y]
    split at hg
    · rename_i e
      have e' := eq_of_beq e
      simp only [Option.some.injEq] at hg
      omega
    · split at hg
      · rename_i e
        have e' := eq_of_beq e
        simp only [Option.some.injEq] at hg
        omega
      · split at hg
        · rename_i e
          have e' := eq_of_beq e
          simp only [Option.some.injEq] at hg
          omega
        · simp at hg
  obtain ⟨a1, a2⟩ := ha
  obtain ⟨b1, b2⟩ := hb
  refine ⟨⟨by omega, fun j hj => ?_⟩, ⟨by omega, fun j hj => ?_⟩, ⟨by omega, fun j hj => ?_⟩⟩
  · have := key (j + (s.length - a.length)) (by omega)
    simp only [padded_getD] at this
    rw [if_neg (by omega)] at this
    rw [show j + (s.length - a.length) - (max a.length b.length - a.length) = j by omega] at this
    rcases this.2.1 with e | e
    · exact Or.inr e
    · exact Or.inl e
  · have := key (j + (s.length - b.length)) (by omega)
    simp only [padded_getD] at this
    rw [if_neg (by omega : ¬ j + (s.length - b.length) < max a.length b.length - b.length)] at this
    rw [show j + (s.length - b.length) - (max a.length b.length - b.length) = j by omega] at this
    rcases this.2.2 with e | e
    · exact Or.inr e
    · exact Or.inl e
  · have := key j hj
    simp only [padded_getD] at this
    obtain ⟨k1, -, -⟩ := this
    have hx : (if j < max a.length b.length - a.length then 1
        else a.getD (j - (max a.length b.length - a.length)) 0) = 1 ∨
        (if j < max a.length b.length - a.length then 1
        else a.getD (j - (max a.length b.length - a.length)) 0) = S.getD (j + (S.length - s.length)) 0 := by
      split
      · exact Or.inl rfl
      · rcases a2 (j - (max a.length b.length - a.length)) (by omega) with e | e
        · exact Or.inl e
        · right; rw [e]; congr 1; omega
    have hy : (if j < max a.length b.length - b.length then 1
        else b.getD (j - (max a.length b.length - b.length)) 0) = 1 ∨
        (if j < max a.length b.length - b.length then 1
        else b.getD (j - (max a.length b.length - b.length)) 0) = S.getD (j + (S.length - s.length)) 0 := by
      split
      · exact Or.inl rfl
      · rcases b2 (j - (max a.length b.length - b.length)) (by omega) with e | e
        · exact Or.inl e
        · right; rw [e]; congr 1; omega
    rcases k1 with e | e <;> rw [e]
    · exact hx
    · exact hy

/-- the flat position read in a tensor of shape `s` for the flat position `t` of the shape `S` it is broadcast to -/
def bIdx (s S : List Nat) (t : Nat) : Nat := ravelIdx s (bcastIndex s (unravel S t))

theorem bIdx_lt (s S : List Nat) (hb : Bc s S) (t : Nat) (ht : t < prodNat S) : bIdx s S t < prodNat s :=
  (ma_ravel_valid s _ (bcastIndex_valid s S _ hb (ma_unravel_valid S t ht).1)).1

theorem broadcastTo_getD {α : Type} [Inhabited α] (A : Tensor α) (S : List Nat) (t : Nat) (ht : t < prodNat S)
    (d : α) : (A.broadcastTo S).data.getD t d = A.data.getD (bIdx A.shape S t) default := by
  rw [List.getD_eq_getElem _ _ (by simp [Tensor.broadcastTo]; exact ht)]
  simp [Tensor.broadcastTo, bIdx]

/-- the (rational) angle of sample `t` -/
def angleQ (A : Tensor Rat) (S : List Nat) (t : Nat) : Rat := A.data.getD (bIdx A.shape S t) default

theorem angleAt_eq (A : Tensor Rat) (S : List Nat) (t : Nat) (hw : A.wellFormed = true) (hb : Bc A.shape S)
    (ht : t < prodNat S) : angleAt A S t = ((angleQ A S t : Rat) : ℝ) := by
  unfold angleAt angleQ
  rw [broadcastTo_getD _ _ _ ht]
  have hlt := bIdx_lt _ _ hb t ht
  have hlen : A.data.length = prodNat A.shape := by simpa [Tensor.wellFormed] using hw
  simp only [castT, Tensor.map]
  rw [List.getD_eq_getElem _ _ (by simp; omega), List.getD_eq_getElem _ _ (by omega)]
  simp

theorem angleQ_map (f : Rat → Rat) (A : Tensor Rat) (S : List Nat) (t : Nat) (hw : A.wellFormed = true)
    (hb : Bc A.shape S) (ht : t < prodNat S) : angleQ (A.map f) S t = f (angleQ A S t) := by
  unfold angleQ
  have hlt := bIdx_lt _ _ hb t ht
  have hlen : A.data.length = prodNat A.shape := by simpa [Tensor.wellFormed] using hw
  simp only [Tensor.map]
  rw [List.getD_eq_getElem _ _ (by simp; omega), List.getD_eq_getElem _ _ (by omega)]
  simp

/-- broadcasting commutes with an element-wise binary operation -/
theorem zip_angle (f : Rat → Rat → Rat) (A B a : Tensor Rat) (S : List Nat)
    (hz : Tensor.zipBroadcast f A B = some a) (hA : Bc A.shape S) (hB : Bc B.shape S) :
    a.wellFormed = true ∧ Bc a.shape S ∧
      ∀ t, t < prodNat S → angleQ a S t = f (angleQ A S t) (angleQ B S t) := by
  cases hs : broadcastShapes A.shape B.shape with
  | none => simp [Tensor.zipBroadcast, hs] at hz
  | some s =>
    obtain ⟨y, hy, hsh, hlen, hval⟩ := zipBroadcast_spec f A B s hs
    rw [hz] at hy
    cases hy
    obtain ⟨bA, bB, bS⟩ := broadcastShapes_Bc A.shape B.shape s S hs hA hB
    refine ⟨by simp [Tensor.wellFormed, hlen, hsh], hsh ▸ bS, fun t ht => ?_⟩
    unfold angleQ
    have hv := ma_unravel_valid S t ht
    have hidx := bcastIndex_valid s S _ bS hv.1
    have hr := ma_ravel_valid s _ hidx
    have hul : (unravel S t).length = S.length := ma_unravel_length S t
    rw [hsh]
    have := hval (bIdx s S t) hr.1
    rw [this]
    unfold bIdx
    rw [hr.2, bcastIndex_bcastIndex _ _ _ bA (by rw [hul]; exact bS.1),
      bcastIndex_bcastIndex _ _ _ bB (by rw [hul]; exact bS.1)]

theorem tensorOp_ok (f : Rat → Rat → Rat) (A B a : Tensor Rat) (h : tensorOp f A B = .ok a) :
    Tensor.zipBroadcast f A B = some a := by
  unfold tensorOp at h
  split at h
  · rename_i t ht; cases h; exact ht
  · cases h

/-! ### validity of the polarimetry leaves -/

/-- the common shape of the Stokes components -/
def leafShape (p : Params) : List Nat := (p.inS.leaves.headD default).shape

/-- validity of the parameters of a `QURotationOperator` / `HWPOperator` / `LinearPolarizerOperator`: the input
structure is a Stokes pytree (1 to 4 leaves of one shape); the rotation angles are a well-formed array that
broadcasts to that shape; the polariser returns one leaf of that shape -/
def stokesOK (c : LeafCls) (p : Params) : Prop :=
  (∃ k, kindOf p.inS.leaves.length = some k) ∧
  (∀ l ∈ p.inS.leaves, l.shape = leafShape p) ∧
  (c = .qurot → p.vals.wellFormed = true ∧ Bc p.vals.shape (leafShape p)) ∧
  (c = .polarizer → ∃ l, p.outS.leaves = [l] ∧ l.shape = leafShape p)

/-- IQU maps of shape (2, 3), one angle per column -/
example : stokesOK .qurot
    { inS := ⟨[.node "stokes:IQU" 3, .leaf, .leaf, .leaf], [⟨[2, 3], .f64⟩, ⟨[2, 3], .f64⟩, ⟨[2, 3], .f64⟩]⟩,
      outS := ⟨[.node "stokes:IQU" 3, .leaf, .leaf, .leaf], [⟨[2, 3], .f64⟩, ⟨[2, 3], .f64⟩, ⟨[2, 3], .f64⟩]⟩,
      vals := ⟨[3], [0, 1 / 2, 1]⟩ } := by
  refine ⟨⟨.IQU, rfl⟩, by decide, fun _ => ⟨rfl, by decide⟩, fun h => by cases h⟩

example : stokesOK .polarizer
    { inS := ⟨[.node "stokes:IQU" 3, .leaf, .leaf, .leaf], [⟨[2, 3], .f64⟩, ⟨[2, 3], .f64⟩, ⟨[2, 3], .f64⟩]⟩,
      outS := ⟨[.leaf], [⟨[2, 3], .f64⟩]⟩ } := by
  refine ⟨⟨.IQU, rfl⟩, by decide, fun h => (by cases h), fun _ => ⟨_, rfl, rfl⟩⟩

theorem sum_map_size (ls : List LeafS) (sh : List Nat) (h : ∀ l ∈ ls, l.shape = sh) :
    (ls.map LeafS.size).sum = ls.length * prodNat sh := by
  induction ls with
  | nil => simp
  | cons l ls ih =>
    simp only [List.map_cons, List.sum_cons, List.length_cons]
    rw [ih (fun l' hl' => h l' (by simp [hl'])), LeafS.size, h l (by simp), Nat.succ_mul, Nat.add_comm]

theorem stokesOK_size {c : LeafCls} {p : Params} {k : StokesKind} (h : stokesOK c p)
    (hk : kindOf p.inS.leaves.length = some k) : p.inS.size = ncomp k * prodNat (leafShape p) := by
  unfold Struct.size
  rw [sum_map_size _ _ h.2.1, kindOf_ncomp hk]

theorem headD_size (p : Params) : (p.inS.leaves.headD default).size = prodNat (leafShape p) := rfl

/-! ### the denotation of the polarimetry leaves on vectors of the right length -/

section unfold
variable (E : Env) {p : Params} {k : StokesKind}

theorem den_qurot (u : Nat) (h : stokesOK .qurot p) (hk : kindOf p.inS.leaves.length = some k) (x : V)
    (hx : x.length = p.inS.size) :
    den E (.leaf u .qurot p) x =
      stokesMap k (prodNat (leafShape p)) (rotG p.vals (leafShape p)) x := by
  have hs := stokesOK_size h hk
  simp only [den, leafDen, squareLeaf, if_true, hk, headD_size]
  rw [fit_of_length hx, fit_of_length (by rw [stokesMap_length, hs])]
  rfl

theorem den_qurotT (uw u : Nat) (h : stokesOK .qurot p) (hk : kindOf p.inS.leaves.length = some k) (x : V)
    (hx : x.length = p.inS.size) :
    den E (.wrap uw .qurotT (.leaf u .qurot p)) x =
      stokesMap k (prodNat (leafShape p)) (rotTG p.vals (leafShape p)) x := by
  have hs := stokesOK_size h hk
  simp only [den, denT, leafDenT, squareLeaf, if_true, hk, headD_size]
  rw [fit_of_length hx, fit_of_length (by rw [stokesMap_length, hs])]
  rfl

theorem denT_qurot (u : Nat) (h : stokesOK .qurot p) (hk : kindOf p.inS.leaves.length = some k) (x : V)
    (hx : x.length = p.inS.size) :
    denT E (.leaf u .qurot p) x =
      stokesMap k (prodNat (leafShape p)) (rotTG p.vals (leafShape p)) x := by
  have hs := stokesOK_size h hk
  simp only [denT, leafDenT, squareLeaf, if_true, hk, headD_size]
  rw [fit_of_length hx, fit_of_length (by rw [stokesMap_length, hs])]
  rfl

theorem den_hwp (u : Nat) (h : stokesOK .hwp p) (hk : kindOf p.inS.leaves.length = some k) (x : V)
    (hx : x.length = p.inS.size) :
    den E (.leaf u .hwp p) x = stokesMap k (prodNat (leafShape p)) (fun _ => SV.hwp) x := by
  have hs := stokesOK_size h hk
  simp only [den, leafDen, squareLeaf, if_true, hk, headD_size]
  rw [fit_of_length hx, fit_of_length (by rw [stokesMap_length, hs])]

theorem den_polarizer (u : Nat) (hk : kindOf p.inS.leaves.length = some k) (x : V)
    (hx : x.length = p.inS.size) :
    den E (.leaf u .polarizer p) x = fit p.outS.size (polMap k (prodNat (leafShape p)) x) := by
  simp only [den, leafDen, squareLeaf, hk, headD_size]
  rw [fit_of_length hx]
  rfl

end unfold

/-! ### composition of sample maps -/

/-- a sample map that reads the present components only -/
def Resp (k : StokesKind) (g : Nat → SV ℝ → SV ℝ) : Prop :=
  ∀ t v w, SV.present k v = SV.present k w → SV.present k (g t v) = SV.present k (g t w)

theorem rotG_resp (k : StokesKind) (A : Tensor Rat) (S : List Nat) : Resp k (rotG A S) :=
  fun _ v w h => C15.present_rot k _ _ v w h

theorem rotTG_resp (k : StokesKind) (A : Tensor Rat) (S : List Nat) : Resp k (rotTG A S) :=
  fun _ v w h => C15.present_rotT k _ _ v w h

theorem hwp_resp (k : StokesKind) : Resp k (fun _ => SV.hwp) :=
  fun _ v w h => C15.present_hwp k v w h

theorem pol_resp (k : StokesKind) (half : ℝ) (v w : SV ℝ) (h : SV.present k v = SV.present k w) :
    SV.pol half k v = SV.pol half k w := by
  cases k <;> simp_all [SV.present, SV.pol]

theorem stokesMap_comp (k : StokesKind) (n : Nat) (g h : Nat → SV ℝ → SV ℝ) (x : V) (hg : Resp k g) :
    stokesMap k n g (stokesMap k n h x) = stokesMap k n (fun t v => g t (h t v)) x := by
  apply stokesMap_congr
  intro t ht
  rw [svAt_stokesMap _ _ _ _ _ ht]
  exact hg t _ _ (present_ofPresent _ _ (present_length _ _))

theorem rotG_eq (A : Tensor Rat) (S : List Nat) (t : Nat) (v : SV ℝ) :
    rotG A S t v = C15.R (angleAt A S t) v := rfl

theorem rotTG_eq (A : Tensor Rat) (S : List Nat) (t : Nat) (v : SV ℝ) :
    rotTG A S t v = C15.RT (angleAt A S t) v := rfl

theorem R_RT_self (a : ℝ) (x : SV ℝ) : C15.R a (C15.RT a x) = x := by
  apply C15.rot_rotT
  have := Real.cos_sq_add_sin_sq (2 * a)
  nlinarith [this]

/-! ### angles of the combined rotation -/

/-- broadcasting commutes with the element-wise operation: the angle of sample `t` of `tensorOp f A B` is
`f` of the angles of sample `t` of `A` and `B`, provided both broadcast to the leaf shape; the result is again
a well-formed array that broadcasts to the leaf shape -/
theorem angleAt_tensorOp (f : Rat → Rat → Rat) (F : ℝ → ℝ → ℝ) (hF : ∀ x y : Rat, ((f x y : Rat) : ℝ) = F x y)
    (A B a : Tensor Rat) (S : List Nat) (wA : A.wellFormed = true) (bA : Bc A.shape S)
    (wB : B.wellFormed = true) (bB : Bc B.shape S) (h : tensorOp f A B = .ok a) :
    a.wellFormed = true ∧ Bc a.shape S ∧
      ∀ t, t < prodNat S → angleAt a S t = F (angleAt A S t) (angleAt B S t) := by
  obtain ⟨wa, ba, hq⟩ := zip_angle f A B a S (tensorOp_ok f A B a h) bA bB
  refine ⟨wa, ba, fun t ht => ?_⟩
  rw [angleAt_eq a S t wa ba ht, angleAt_eq A S t wA bA ht, angleAt_eq B S t wB bB ht, hq t ht, hF]

theorem angleAt_neg (A : Tensor Rat) (S : List Nat) (wA : A.wellFormed = true) (bA : Bc A.shape S) :
    (A.map (- ·)).wellFormed = true ∧ Bc (A.map (- ·)).shape S ∧
      ∀ t, t < prodNat S → angleAt (A.map (- ·)) S t = - angleAt A S t := by
  have w : (A.map (- ·)).wellFormed = true := by
    simpa [Tensor.map, Tensor.wellFormed] using wA
  refine ⟨w, bA, fun t ht => ?_⟩
  rw [angleAt_eq _ S t w bA ht, angleAt_eq A S t wA bA ht, angleQ_map _ A S t wA bA ht]
  push_cast
  rfl

/-! ### the laws -/

section laws
variable (E : Env)

theorem stokesOK_new {pr : Params} {a : Tensor Rat} (hr : stokesOK .qurot pr) (wa : a.wellFormed = true)
    (ba : Bc a.shape (leafShape pr)) : stokesOK .qurot { inS := pr.inS, outS := pr.inS, vals := a } :=
  ⟨hr.1, hr.2.1, fun _ => ⟨wa, ba⟩, fun h => by cases h⟩

/-- the common part of the four cases of `QURotationRule`: if the operands `L`, `R` act sample-wise by `gl`,
`gr` and the rotation by the new angles is their composition sample by sample, the new rotation denotes the
composition -/
theorem rot_case {pr : Params} {a : Tensor Rat} {k : StokesKind} (hr : stokesOK .qurot pr)
    (hk : kindOf pr.inS.leaves.length = some k) (wa : a.wellFormed = true) (ba : Bc a.shape (leafShape pr))
    (L R : Op) (gl gr : Nat → SV ℝ → SV ℝ) (hgl : Resp k gl)
    (hL : ∀ x, x.length = pr.inS.size → den E L x = stokesMap k (prodNat (leafShape pr)) gl x)
    (hR : ∀ x, x.length = pr.inS.size → den E R x = stokesMap k (prodNat (leafShape pr)) gr x)
    (hpt : ∀ t, t < prodNat (leafShape pr) → ∀ v, rotG a (leafShape pr) t v = gl t (gr t v)) :
    ∀ x, mem pr.inS x → den E (mkQURot a pr.inS) x = den E L (den E R x) := by
  intro x hx
  have hnew := stokesOK_new hr wa ba
  have hsz := stokesOK_size hr hk
  rw [mkQURot, den_qurot E 0 hnew hk x hx, hR x hx, hL _ (by rw [stokesMap_length, hsz]),
    stokesMap_comp _ _ _ _ _ hgl]
  apply stokesMap_congr
  intro t ht
  exact congrArg _ (hpt t ht _)

variable {pl pr : Params}

/-- what two rotations on the same structure share -/
theorem pair_facts {c : LeafCls} (hl : stokesOK .qurot pl) (hr : stokesOK c pr) (hS : pl.inS = pr.inS) :
    ∃ k, kindOf pr.inS.leaves.length = some k ∧ kindOf pl.inS.leaves.length = some k ∧
      leafShape pl = leafShape pr ∧ pl.vals.wellFormed = true ∧ Bc pl.vals.shape (leafShape pr) ∧
      pr.inS.size = ncomp k * prodNat (leafShape pr) := by
  obtain ⟨k, hk⟩ := hr.1
  have hsh : leafShape pl = leafShape pr := by unfold leafShape; rw [hS]
  exact ⟨k, hk, by rw [hS]; exact hk, hsh, (hl.2.2.1 rfl).1, hsh ▸ (hl.2.2.1 rfl).2, stokesOK_size hr hk⟩

/-- `QURotationRule`, R(a) R(b) = R(a + b) -/
theorem rot_rot (ul : Nat) (pl : Params) (ur : Nat) (pr : Params) (a : Tensor Rat)
    (hl : stokesOK .qurot pl) (hr : stokesOK .qurot pr) (hS : pl.inS = pr.inS)
    (ha : tensorOp (· + ·) pl.vals pr.vals = .ok a) :
    stokesOK .qurot { inS := pr.inS, outS := pr.inS, vals := a } ∧
    ∀ x, mem pr.inS x → den E (mkQURot a pr.inS) x =
      den E (.leaf ul .qurot pl) (den E (.leaf ur .qurot pr) x) := by
  obtain ⟨k, hk, hkl, hsh, wl, bl, hsz⟩ := pair_facts hl hr hS
  obtain ⟨wa, ba, hang⟩ := angleAt_tensorOp (· + ·) (· + ·) (fun x y => Rat.cast_add x y) pl.vals pr.vals a
    (leafShape pr) wl bl (hr.2.2.1 rfl).1 (hr.2.2.1 rfl).2 ha
  refine ⟨stokesOK_new hr wa ba, rot_case E hr hk wa ba _ _ (rotG pl.vals (leafShape pr))
    (rotG pr.vals (leafShape pr)) (rotG_resp _ _ _) ?_ ?_ ?_⟩
  · intro x hx; rw [den_qurot E ul hl hkl x (by rw [hS]; exact hx), hsh]
  · intro x hx; exact den_qurot E ur hr hk x hx
  · intro t ht v
    rw [rotG_eq, rotG_eq, rotG_eq, hang t ht, C15.R_R]

/-- `QURotationRule`, R(a) R(b)ᵀ = R(a - b) -/
theorem rot_rotT (ul : Nat) (pl : Params) (uw ur : Nat) (pr : Params) (a : Tensor Rat)
    (hl : stokesOK .qurot pl) (hr : stokesOK .qurot pr) (hS : pl.inS = pr.inS)
    (ha : tensorOp (· - ·) pl.vals pr.vals = .ok a) :
    stokesOK .qurot { inS := pr.inS, outS := pr.inS, vals := a } ∧
    ∀ x, mem pr.inS x → den E (mkQURot a pr.inS) x =
      den E (.leaf ul .qurot pl) (den E (.wrap uw .qurotT (.leaf ur .qurot pr)) x) := by
  obtain ⟨k, hk, hkl, hsh, wl, bl, hsz⟩ := pair_facts hl hr hS
  obtain ⟨wa, ba, hang⟩ := angleAt_tensorOp (· - ·) (· - ·) (fun x y => Rat.cast_sub x y) pl.vals pr.vals a
    (leafShape pr) wl bl (hr.2.2.1 rfl).1 (hr.2.2.1 rfl).2 ha
  refine ⟨stokesOK_new hr wa ba, rot_case E hr hk wa ba _ _ (rotG pl.vals (leafShape pr))
    (rotTG pr.vals (leafShape pr)) (rotG_resp _ _ _) ?_ ?_ ?_⟩
  · intro x hx; rw [den_qurot E ul hl hkl x (by rw [hS]; exact hx), hsh]
  · intro x hx; exact den_qurotT E uw ur hr hk x hx
  · intro t ht v
    rw [rotG_eq, rotG_eq, rotTG_eq, hang t ht, C15.R_RT]

/-- `QURotationRule`, R(a)ᵀ R(b) = R(b - a) -/
theorem rotT_rot (uw ul : Nat) (pl : Params) (ur : Nat) (pr : Params) (a : Tensor Rat)
    (hl : stokesOK .qurot pl) (hr : stokesOK .qurot pr) (hS : pl.inS = pr.inS)
    (ha : tensorOp (· - ·) pr.vals pl.vals = .ok a) :
    stokesOK .qurot { inS := pr.inS, outS := pr.inS, vals := a } ∧
    ∀ x, mem pr.inS x → den E (mkQURot a pr.inS) x =
      den E (.wrap uw .qurotT (.leaf ul .qurot pl)) (den E (.leaf ur .qurot pr) x) := by
  obtain ⟨k, hk, hkl, hsh, wl, bl, hsz⟩ := pair_facts hl hr hS
  obtain ⟨wa, ba, hang⟩ := angleAt_tensorOp (· - ·) (· - ·) (fun x y => Rat.cast_sub x y) pr.vals pl.vals a
    (leafShape pr) (hr.2.2.1 rfl).1 (hr.2.2.1 rfl).2 wl bl ha
  refine ⟨stokesOK_new hr wa ba, rot_case E hr hk wa ba _ _ (rotTG pl.vals (leafShape pr))
    (rotG pr.vals (leafShape pr)) (rotTG_resp _ _ _) ?_ ?_ ?_⟩
  · intro x hx; rw [den_qurotT E uw ul hl hkl x (by rw [hS]; exact hx), hsh]
  · intro x hx; exact den_qurot E ur hr hk x hx
  · intro t ht v
    rw [rotG_eq, rotG_eq, rotTG_eq, hang t ht, C15.RT_R]

/-- `QURotationRule`, R(a)ᵀ R(b)ᵀ = R(-a - b) -/
theorem rotT_rotT (uw ul : Nat) (pl : Params) (uw' ur : Nat) (pr : Params) (a : Tensor Rat)
    (hl : stokesOK .qurot pl) (hr : stokesOK .qurot pr) (hS : pl.inS = pr.inS)
    (ha : tensorOp (· - ·) (pl.vals.map (- ·)) pr.vals = .ok a) :
    stokesOK .qurot { inS := pr.inS, outS := pr.inS, vals := a } ∧
    ∀ x, mem pr.inS x → den E (mkQURot a pr.inS) x =
      den E (.wrap uw .qurotT (.leaf ul .qurot pl)) (den E (.wrap uw' .qurotT (.leaf ur .qurot pr)) x) := by
  obtain ⟨k, hk, hkl, hsh, wl, bl, hsz⟩ := pair_facts hl hr hS
  obtain ⟨wn, bn, hneg⟩ := angleAt_neg pl.vals (leafShape pr) wl bl
  obtain ⟨wa, ba, hang⟩ := angleAt_tensorOp (· - ·) (· - ·) (fun x y => Rat.cast_sub x y) (pl.vals.map (- ·))
    pr.vals a (leafShape pr) wn bn (hr.2.2.1 rfl).1 (hr.2.2.1 rfl).2 ha
  refine ⟨stokesOK_new hr wa ba, rot_case E hr hk wa ba _ _ (rotTG pl.vals (leafShape pr))
    (rotTG pr.vals (leafShape pr)) (rotTG_resp _ _ _) ?_ ?_ ?_⟩
  · intro x hx; rw [den_qurotT E uw ul hl hkl x (by rw [hS]; exact hx), hsh]
  · intro x hx; exact den_qurotT E uw' ur hr hk x hx
  · intro t ht v
    rw [rotG_eq, rotTG_eq, rotTG_eq, hang t ht, hneg t ht, C15.RT_RT]

/-- `QURotationHWPRule`: H R(a)ᵀ = R(a) H -/
theorem rot_hwp (uw ul : Nat) (pl : Params) (ur : Nat) (pr : Params)
    (hl : stokesOK .qurot pl) (hr : stokesOK .hwp pr) (hS : pl.inS = pr.inS) :
    ∀ x, mem pr.inS x →
      den E (.leaf ur .hwp pr) (den E (.wrap uw .qurotT (.leaf ul .qurot pl)) x) =
      den E (.leaf ul .qurot pl) (den E (.leaf ur .hwp pr) x) := by
  obtain ⟨k, hk, hkl, hsh, wl, bl, hsz⟩ := pair_facts hl hr hS
  intro x hx
  have hxl : x.length = pl.inS.size := by rw [hS]; exact hx
  rw [den_qurotT E uw ul hl hkl x hxl, den_hwp E ur hr hk x hx, hsh,
    den_hwp E ur hr hk _ (by rw [stokesMap_length, hsz]),
    den_qurot E ul hl hkl _ (by rw [stokesMap_length, hS, hsz]), hsh,
    stokesMap_comp _ _ _ _ _ (hwp_resp k), stokesMap_comp _ _ _ _ _ (rotG_resp _ _ _)]
  apply stokesMap_congr
  intro t _
  exact congrArg _ (C15.rot_hwp _ _ _).symm

/-- `QURotationHWPRule`: H R(a) = R(a)ᵀ H -/
theorem rotT_hwp (uw ul : Nat) (pl : Params) (ur : Nat) (pr : Params)
    (hl : stokesOK .qurot pl) (hr : stokesOK .hwp pr) (hS : pl.inS = pr.inS) :
    ∀ x, mem pr.inS x →
      den E (.leaf ur .hwp pr) (den E (.leaf ul .qurot pl) x) =
      den E (.wrap uw .qurotT (.leaf ul .qurot pl)) (den E (.leaf ur .hwp pr) x) := by
  obtain ⟨k, hk, hkl, hsh, wl, bl, hsz⟩ := pair_facts hl hr hS
  intro x hx
  have hxl : x.length = pl.inS.size := by rw [hS]; exact hx
  rw [den_qurot E ul hl hkl x hxl, den_hwp E ur hr hk x hx, hsh,
    den_hwp E ur hr hk _ (by rw [stokesMap_length, hsz]),
    den_qurotT E uw ul hl hkl _ (by rw [stokesMap_length, hS, hsz]), hsh,
    stokesMap_comp _ _ _ _ _ (hwp_resp k), stokesMap_comp _ _ _ _ _ (rotTG_resp _ _ _)]
  apply stokesMap_congr
  intro t _
  exact congrArg _ (C15.rotT_hwp _ _ _).symm

/-- `LinearPolarizerHWPRule`: P H = P -/
theorem polarizer_hwp (ul : Nat) (pl : Params) (ur : Nat) (pr : Params)
    (_hl : stokesOK .polarizer pl) (hr : stokesOK .hwp pr) (hS : pl.inS = pr.inS) :
    ∀ x, mem pr.inS x →
      den E (.leaf ul .polarizer pl) x = den E (.leaf ul .polarizer pl) (den E (.leaf ur .hwp pr) x) := by
  obtain ⟨k, hk⟩ := hr.1
  have hkl : kindOf pl.inS.leaves.length = some k := by rw [hS]; exact hk
  have hsh : leafShape pl = leafShape pr := by unfold leafShape; rw [hS]
  have hsz := stokesOK_size hr hk
  intro x hx
  rw [den_polarizer E ul hkl x (by rw [hS]; exact hx), den_hwp E ur hr hk x hx,
    den_polarizer E ul hkl _ (by rw [stokesMap_length, hS, hsz]), hsh]
  congr 1
  apply polMap_congr
  intro t ht
  rw [svAt_stokesMap _ _ _ _ _ ht]
  rw [pol_resp k _ _ _ (present_ofPresent _ _ (present_length _ _))]
  exact (C15.pol_hwp _ k _).symm

/-- a rotation is orthogonal: its transpose is a two-sided inverse on the vectors of its structure
(`c² + s² = 1`), and both keep the length -/
theorem qurot_inv (u : Nat) (p : Params) (h : stokesOK .qurot p) :
    ∀ x, mem p.inS x →
      mem p.inS (den E (.leaf u .qurot p) x) ∧ mem p.inS (denT E (.leaf u .qurot p) x) ∧
      denT E (.leaf u .qurot p) (den E (.leaf u .qurot p) x) = x ∧
      den E (.leaf u .qurot p) (denT E (.leaf u .qurot p) x) = x := by
  obtain ⟨k, hk⟩ := h.1
  have hsz := stokesOK_size h hk
  intro x hx
  have hx' : x.length = ncomp k * prodNat (leafShape p) := by rw [← hsz]; exact hx
  rw [den_qurot E u h hk x hx, denT_qurot E u h hk x hx]
  refine ⟨by rw [mem, stokesMap_length, hsz], by rw [mem, stokesMap_length, hsz], ?_, ?_⟩
  · rw [denT_qurot E u h hk _ (by rw [stokesMap_length, hsz]), stokesMap_comp _ _ _ _ _ (rotTG_resp _ _ _)]
    apply stokesMap_id _ _ _ _ hx'
    intro t _
    rw [rotG_eq, rotTG_eq, C15.RT_R_self]
  · rw [den_qurot E u h hk _ (by rw [stokesMap_length, hsz]), stokesMap_comp _ _ _ _ _ (rotG_resp _ _ _)]
    apply stokesMap_id _ _ _ _ hx'
    intro t _
    rw [rotG_eq, rotTG_eq, R_RT_self]

/-- the same with the transpose written as the operator `QURotationTransposeOperator(o)` -/
theorem qurot_inv_wrap (uw u : Nat) (p : Params) (h : stokesOK .qurot p) :
    ∀ x, mem p.inS x →
      den E (.wrap uw .qurotT (.leaf u .qurot p)) (den E (.leaf u .qurot p) x) = x ∧
      den E (.leaf u .qurot p) (den E (.wrap uw .qurotT (.leaf u .qurot p)) x) = x := by
  intro x hx
  have e : ∀ y, den E (.wrap uw .qurotT (.leaf u .qurot p)) y = denT E (.leaf u .qurot p) y := by
    intro y; simp only [den]
  rw [e, e]
  exact ⟨(qurot_inv E u p h x hx).2.2.1, (qurot_inv E u p h x hx).2.2.2⟩

end laws

/-- broadcasting commutes with the element-wise sum, in the form the rule uses it: the angle of sample `t` of
`left.angles + right.angles` is the sum of the operands' angles of sample `t` -/
theorem angleAt_add {pl pr : Params} {a : Tensor Rat} (hl : stokesOK .qurot pl) (hr : stokesOK .qurot pr)
    (hS : pl.inS = pr.inS) (ha : tensorOp (· + ·) pl.vals pr.vals = .ok a) (t : Nat)
    (ht : t < prodNat (leafShape pr)) :
    angleAt a (leafShape pr) t = angleAt pl.vals (leafShape pr) t + angleAt pr.vals (leafShape pr) t := by
  obtain ⟨k, hk, hkl, hsh, wl, bl, hsz⟩ := pair_facts hl hr hS
  exact (angleAt_tensorOp (· + ·) (· + ·) (fun x y => Rat.cast_add x y) pl.vals pr.vals a
    (leafShape pr) wl bl (hr.2.2.1 rfl).1 (hr.2.2.1 rfl).2 ha).2.2 t ht

/-- the side condition is needed: with angles of shape (2, 1) on leaves of shape (2,) (rank of the angles larger
than the rank of the leaves — in furax such an operator returns leaves of shape (2, 2), not its declared output
structure) the sum of shape (2, 2) is read at entry 1 for sample 1, which comes from entry 0 of the left angles,
whereas the left operator itself reads its entry 1 for sample 1 -/
example : bIdx [2, 2] [2] 1 = 1 ∧ bIdx [2, 1] [2, 2] 1 = 0 ∧ bIdx [2, 1] [2] 1 = 1 ∧ ¬ Bc [2, 1] [2] := by decide

/-- with homogeneous leaf kernels (`LeafHom`, proved elsewhere) the transpose is the inverse in the sense of
`IsInvOn`, the predicate `chooseInv` looks for -/
theorem qurot_isInvOn (E : Env) (hh : LeafHom E) (u : Nat) (p : Params) (h : stokesOK .qurot p) :
    IsInvOn p.inS.size (den E (.leaf u .qurot p)) (denT E (.leaf u .qurot p)) := by
  refine ⟨fun x hx => ?_, fun a x _ => ?_⟩
  · obtain ⟨-, h2, h3, h4⟩ := qurot_inv E u p h x hx
    exact ⟨h2, h4, h3⟩
  · simp only [denT]
    exact hh.2 u .qurot p a x

end ListSem
end Furax
