/-
The algebraic tags, in the closed list denotation (FuraxProofs/Sem/ListSem.lean): helper lemmas of
FuraxProofs/Props/C08Closed.lean.

1.  `Op.clsName`: the Python class of an operator expression — the names of FuraxModel/Codec.lean (`LeafCls.name`,
    `WrapCls.name`, `ContCls.name`: the ones the harness encodes with), and their injectivity
    (`Op.clsName_eq_leaf`, `Op.clsName_eq_wrap`): an expression whose class name is that of a leaf class IS a leaf
    of that class.
2.  what a tag MEANS for an expression `o`:
    `SemSymmetric E o` (square, `op.T` is `op`, `denT = den`, self-adjoint, symmetric dense matrix),
    `SemDiagonal E o` (square, entry-wise product with ONE vector, diagonal dense matrix),
    `SemOrthogonal E o` (`op.I` is the form `op.T`, `denT ∘ den = id = den ∘ denT`, `Mᵀ M = 1 = M Mᵀ`).
3.  generic bridges: a self-adjoint operator has a symmetric matrix (`asMatrix_isSymm_of_selfAdjoint`), an entry-wise
    product has a diagonal matrix (`asMatrix_of_zipWith`), a two-sided inverse pair of adjoint maps has `Mᵀ M = 1`
    (`asMatrix_gram_of_inverse`).
4.  the classes, one by one, each under the WEAKEST hypothesis on its parameters.
-/
import FuraxModel.Codec
import FuraxProofs.Sem.LinearList
import FuraxProofs.Sem.InverseList
import FuraxProofs.Sem.ToeplitzList
import Mathlib.LinearAlgebra.Matrix.Symmetric
namespace Furax
open Op

/-! ### 1. the Python class of an expression -/

/-- the Python class of an operator expression: the names of FuraxModel/Codec.lean (mirrored by harness/encode.py) -/
def Op.clsName : Op → String
  | .leaf _ c _ => c.name
  | .wrap _ k _ => k.name
  | .comp _ _ => "CompositionOperator"
  | .cont _ k _ _ => k.name

theorem LeafCls.ofName?_name (c : LeafCls) : LeafCls.ofName? c.name = some c := by cases c <;> decide
theorem LeafCls.ofName?_wrapName (k : WrapCls) : LeafCls.ofName? k.name = none := by cases k <;> decide
theorem LeafCls.ofName?_contName (k : ContCls) : LeafCls.ofName? k.name = none := by cases k <;> decide
theorem LeafCls.ofName?_compName : LeafCls.ofName? "CompositionOperator" = none := by decide
theorem WrapCls.ofName?_name (k : WrapCls) : WrapCls.ofName? k.name = some k := by cases k <;> decide
theorem WrapCls.ofName?_leafName (c : LeafCls) : WrapCls.ofName? c.name = none := by cases c <;> decide
theorem WrapCls.ofName?_contName (k : ContCls) : WrapCls.ofName? k.name = none := by cases k <;> decide
theorem WrapCls.ofName?_compName : WrapCls.ofName? "CompositionOperator" = none := by decide

/-- an expression whose class name is the name of the leaf class `c` is a leaf of class `c` -/
theorem Op.clsName_eq_leaf {o : Op} {c : LeafCls} (h : o.clsName = c.name) : ∃ u p, o = .leaf u c p := by
  have h' := congrArg LeafCls.ofName? h
  rw [LeafCls.ofName?_name] at h'
  cases o with
  | leaf u c' p =>
    simp only [Op.clsName, LeafCls.ofName?_name, Option.some.injEq] at h'
    exact ⟨u, p, by rw [h']⟩
  | wrap u k o => simp [Op.clsName, LeafCls.ofName?_wrapName] at h'
  | comp u ops => simp [Op.clsName, LeafCls.ofName?_compName] at h'
  | cont u k td ops => simp [Op.clsName, LeafCls.ofName?_contName] at h'

/-- an expression whose class name is the name of the wrapper class `k` is a wrapper of class `k` -/
theorem Op.clsName_eq_wrap {o : Op} {k : WrapCls} (h : o.clsName = k.name) : ∃ u o', o = .wrap u k o' := by
  have h' := congrArg WrapCls.ofName? h
  rw [WrapCls.ofName?_name] at h'
  cases o with
  | leaf u c' p => simp [Op.clsName, WrapCls.ofName?_leafName] at h'
  | wrap u k' o =>
    simp only [Op.clsName, WrapCls.ofName?_name, Option.some.injEq] at h'
    exact ⟨u, o, by rw [h']⟩
  | comp u ops => simp [Op.clsName, WrapCls.ofName?_compName] at h'
  | cont u k td ops => simp [Op.clsName, WrapCls.ofName?_contName] at h'

namespace ListSem
open Matrix

/-! ### 2. what the tags mean -/

/-- **symmetric**: equal structures, `op.T` is `op` (the form), the transpose map is the map, the map is self-adjoint
for the Euclidean pairing, and the dense matrix is symmetric -/
structure SemSymmetric (E : Env) (o : Op) : Prop where
  square : Op.outS o = Op.inS o
  transpose_self : transposeOp o = .ok o
  denT_eq : ∀ x : V, x.length = inSize o → denT E o x = den E o x
  selfAdjoint : ∀ x y : V, x.length = inSize o → y.length = inSize o → dot (den E o x) y = dot x (den E o y)
  matrix : ∀ hE : EnvAdd E, (asMatrix E hE o (inSize o) (inSize o)).IsSymm

/-- **diagonal**: equal structures, the map is the entry-wise product with ONE vector `d`, the dense matrix is
`Matrix.diagonal d`; all its off-diagonal entries vanish -/
structure SemDiagonal (E : Env) (o : Op) : Prop where
  square : Op.outS o = Op.inS o
  diag : ∃ d : V, d.length = inSize o ∧
    (∀ x : V, x.length = inSize o → den E o x = List.zipWith (· * ·) d x) ∧
    ∀ hE : EnvAdd E, asMatrix E hE o (inSize o) (inSize o) = Matrix.diagonal (toFn (inSize o) d)
  offdiag : ∀ (hE : EnvAdd E) (i j : Fin (inSize o)), i ≠ j → asMatrix E hE o (inSize o) (inSize o) i j = 0

/-- **orthogonal** (`inverse = transpose`): `op.I` is the form `op.T`, the transpose map is a two-sided inverse of
the map on the vectors of the declared sizes, and the dense matrix `M` satisfies `Mᵀ M = 1` and `M Mᵀ = 1` -/
structure SemOrthogonal (E : Env) (o : Op) : Prop where
  inverse_is_transpose : inverseOp o = transposeOp o
  left : ∀ x : V, x.length = inSize o → denT E o (den E o x) = x
  right : ∀ y : V, y.length = outSize o → den E o (denT E o y) = y
  gram : ∀ hE : EnvAdd E, (asMatrix E hE o (inSize o) (outSize o))ᵀ * asMatrix E hE o (inSize o) (outSize o) = 1
  gram' : ∀ hE : EnvAdd E, asMatrix E hE o (inSize o) (outSize o) * (asMatrix E hE o (inSize o) (outSize o))ᵀ = 1

/-! ### 3. generic bridges to the dense matrix -/

/-- a self-adjoint operator has a symmetric dense matrix -/
theorem asMatrix_isSymm_of_selfAdjoint (E : Env) (hE : EnvAdd E) (o : Op) (n : Nat)
    (h : ∀ x y : V, x.length = n → y.length = n → dot (den E o x) y = dot x (den E o y)) :
    (asMatrix E hE o n n).IsSymm :=
  (asMatrix_of_adjoint E hE o o n n fun v w => h _ _ (by simp) (by simp)).symm

theorem zipWith_replicate_mul (a : ℝ) (x : V) :
    List.zipWith (· * ·) (List.replicate x.length a) x = x.map fun v => a * v := by
  induction x with
  | nil => rfl
  | cons v x ih => simp [List.replicate_succ, ih]

theorem zipWith_unitVec_getD (d : V) (n : Nat) (hd : d.length = n) (j i : Nat) (hi : i < n) :
    (List.zipWith (· * ·) d (unitVec n j)).getD i 0 = if i = j then d.getD i 0 else 0 := by
  have hu := unitVec_length n j
  have hi' : i < (List.zipWith (· * ·) d (unitVec n j)).length := by simp [hd, hu, hi]
  rw [List.getD_eq_getElem _ _ hi', List.getElem_zipWith, ← List.getD_eq_getElem (unitVec n j) 0 (by omega),
    unitVec_getD n j i hi, ← List.getD_eq_getElem d 0 (by omega)]
  split_ifs <;> simp

/-- an entry-wise product with the vector `d` has the dense matrix `diagonal d` -/
theorem asMatrix_of_zipWith (E : Env) (hE : EnvAdd E) (o : Op) (n : Nat) (d : V) (hd : d.length = n)
    (h : ∀ x : V, x.length = n → den E o x = List.zipWith (· * ·) d x) :
    asMatrix E hE o n n = Matrix.diagonal (toFn n d) := by
  ext i j
  rw [asMatrix_apply, h _ (unitVec_length n j), zipWith_unitVec_getD d n hd j i i.2, Matrix.diagonal_apply]
  by_cases hij : i = j
  · subst hij; simp [toFn]
  · have : (i : Nat) ≠ j := fun e => hij (Fin.ext e)
    simp [hij, this]

/-- the constructor of `SemDiagonal` from the vector -/
theorem SemDiagonal.of_zipWith (E : Env) (o : Op) (hsq : Op.outS o = Op.inS o) (d : V) (hd : d.length = inSize o)
    (h : ∀ x : V, x.length = inSize o → den E o x = List.zipWith (· * ·) d x) : SemDiagonal E o where
  square := hsq
  diag := ⟨d, hd, h, fun hE => asMatrix_of_zipWith E hE o _ d hd h⟩
  offdiag := fun hE i j hij => by
    rw [asMatrix_of_zipWith E hE o _ d hd h, Matrix.diagonal_apply_ne _ hij]

/-- the constructor of `SemSymmetric` from the adjointness of `denT` -/
theorem SemSymmetric.of_adjoint (E : Env) (o : Op) (hsq : Op.outS o = Op.inS o) (hT : transposeOp o = .ok o)
    (hden : ∀ x : V, x.length = inSize o → denT E o x = den E o x)
    (hadj : ∀ x y : V, x.length = inSize o → y.length = outSize o → dot (den E o x) y = dot x (denT E o y)) :
    SemSymmetric E o := by
  have hio : outSize o = inSize o := by unfold inSize outSize; rw [hsq]
  have hsa : ∀ x y : V, x.length = inSize o → y.length = inSize o → dot (den E o x) y = dot x (den E o y) :=
    fun x y hx hy => by rw [hadj x y hx (hy.trans hio.symm), hden y hy]
  exact ⟨hsq, hT, hden, hsa, fun hE => asMatrix_isSymm_of_selfAdjoint E hE o _ hsa⟩

section Gram

/-- the dense matrix of `denT ∘ den` is the product of the matrices -/
theorem asMatrixT_mul_asMatrix (E : Env) (hE : EnvAdd E) (o : Op) (ho : StructOK o) (n m : Nat) (hm : outSize o = m)
    (h : ∀ x : V, x.length = n → denT E o (den E o x) = x) :
    asMatrixT E hE o m n * asMatrix E hE o n m = 1 := by
  have : toLinearMapTN E hE o m n ∘ₗ toLinearMapN E hE o n m = LinearMap.id := by
    apply LinearMap.ext
    intro v
    rw [LinearMap.comp_apply, toLinearMapTN_apply, toLinearMapN_apply,
      ofFn_toFn m _ (by rw [den_length E o ho, hm]), h _ (by simp), toFn_ofFn]
    rfl
  rw [asMatrixT, asMatrix, ← LinearMap.toMatrix'_comp, this, LinearMap.toMatrix'_id]

theorem asMatrix_mul_asMatrixT (E : Env) (hE : EnvAdd E) (o : Op) (ho : StructOK o) (n m : Nat) (hn : inSize o = n)
    (h : ∀ y : V, y.length = m → den E o (denT E o y) = y) :
    asMatrix E hE o n m * asMatrixT E hE o m n = 1 := by
  have : toLinearMapN E hE o n m ∘ₗ toLinearMapTN E hE o m n = LinearMap.id := by
    apply LinearMap.ext
    intro v
    rw [LinearMap.comp_apply, toLinearMapTN_apply, toLinearMapN_apply,
      ofFn_toFn n _ (by rw [denT_length E o ho, hn]), h _ (by simp), toFn_ofFn]
    rfl
  rw [asMatrixT, asMatrix, ← LinearMap.toMatrix'_comp, this, LinearMap.toMatrix'_id]

/-- the constructor of `SemOrthogonal`: the matrix statements follow from the inverse pair and adjointness -/
theorem SemOrthogonal.of_inverse (E : Env) (o : Op) (hA : EnvAdjOn E o) (hv : Valid o)
    (hIT : inverseOp o = transposeOp o)
    (hl : ∀ x : V, x.length = inSize o → denT E o (den E o x) = x)
    (hr : ∀ y : V, y.length = outSize o → den E o (denT E o y) = y) : SemOrthogonal E o where
  inverse_is_transpose := hIT
  left := hl
  right := hr
  gram := fun hE => by
    rw [← asMatrixT_transpose E hE o hA hv]
    exact asMatrixT_mul_asMatrix E hE o hv.structOK _ _ rfl hl
  gram' := fun hE => by
    rw [← asMatrixT_transpose E hE o hA hv]
    exact asMatrix_mul_asMatrixT E hE o hv.structOK _ _ rfl hr

end Gram

/-! ### 4. the classes, one by one -/

/-! #### symmetric leaves -/

/-- for the classes decorated `@symmetric` / `@diagonal` that the denotation interprets by a kernel of its own, the
transpose map IS the map — as functions, on all inputs, without any hypothesis -/
theorem leafDenT_eq_leafDen (E : Env) (u : Nat) (c : LeafCls) (p : Params)
    (hc : c = .identity ∨ c = .homothety ∨ c = .diagonal ∨ c = .hwp) : leafDenT E u c p = leafDen E u c p := by
  funext y
  rcases hc with rfl | rfl | rfl | rfl <;> simp only [leafDen, leafDenT, squareLeaf, if_true]

theorem denT_eq_den_leaf (E : Env) (u : Nat) (c : LeafCls) (p : Params)
    (hc : c = .identity ∨ c = .homothety ∨ c = .diagonal ∨ c = .hwp) :
    denT E (.leaf u c p) = den E (.leaf u c p) := by
  funext y
  rw [den, denT, leafDenT_eq_leafDen E u c p hc]

/-- `DiagonalInverseOperator(DiagonalOperator)`: the transpose map IS the map, as functions -/
theorem denT_eq_den_diagInv (E : Env) (w u : Nat) (p : Params) :
    denT E (.wrap w .diagInv (.leaf u .diagonal p)) = den E (.wrap w .diagInv (.leaf u .diagonal p)) := by
  funext y
  rw [den, denT]

theorem squareLeaf_of_symmetric {c : LeafCls} (h : isSymmetricLeaf c = true) : squareLeaf c = true := by
  cases c <;> simp_all [isSymmetricLeaf, squareLeaf]

/-- a leaf of a class whose `transpose` is `lambda self: self`, when the two kernels of the denotation agree and are
adjoint -/
theorem semSymmetric_leaf (E : Env) (u : Nat) (c : LeafCls) (p : Params) (hc : isSymmetricLeaf c = true)
    (hT : ∀ x : V, x.length = p.inS.size → leafDenT E u c p x = leafDen E u c p x)
    (hA : LeafAdjAt E u c p) : SemSymmetric E (.leaf u c p) := by
  have hsq := squareLeaf_of_symmetric hc
  refine SemSymmetric.of_adjoint E _ ?_ (transpose_symmetric_leaf u c p hc) ?_ ?_
  · simp [Op.outS, Op.inS, hsq]
  · intro x hx
    rw [den, denT]
    exact hT x hx
  · intro x y hx hy
    rw [den, denT]
    exact hA x y hx hy

/-- **`IdentityOperator` is symmetric** — no hypothesis -/
theorem identity_symmetric (E : Env) (u : Nat) (p : Params) : SemSymmetric E (.leaf u .identity p) :=
  semSymmetric_leaf E u _ p rfl (fun x _ => congrFun (leafDenT_eq_leafDen E u _ p (.inl rfl)) x)
    (identity_leaf_adjoint E u p)

/-- **`HomothetyOperator` is symmetric** — no hypothesis -/
theorem homothety_symmetric (E : Env) (u : Nat) (p : Params) : SemSymmetric E (.leaf u .homothety p) :=
  semSymmetric_leaf E u _ p rfl (fun x _ => congrFun (leafDenT_eq_leafDen E u _ p (.inr (.inl rfl))) x)
    (homothety_leaf_adjoint E u p)

/-- **`DiagonalOperator` is symmetric**, under `diagonalOK p` (the strict broadcasting product is accepted) -/
theorem diagonal_symmetric (E : Env) (u : Nat) (p : Params) (h : diagonalOK p) :
    SemSymmetric E (.leaf u .diagonal p) :=
  semSymmetric_leaf E u _ p rfl (fun x _ => congrFun (leafDenT_eq_leafDen E u _ p (.inr (.inr (.inl rfl)))) x)
    (diagonal_leaf_adjoint E u p p.vals rfl h)

/-- **`HWPOperator` is symmetric**, under `stokesOK .hwp p` (a Stokes pytree of leaves of one shape) -/
theorem hwp_symmetric (E : Env) (u : Nat) (p : Params) (h : stokesOK .hwp p) : SemSymmetric E (.leaf u .hwp p) :=
  semSymmetric_leaf E u _ p rfl (fun x _ => congrFun (leafDenT_eq_leafDen E u _ p (.inr (.inr (.inr rfl)))) x)
    (hwp_leaf_adjoint E u p h)

/-- **`SymmetricBandToeplitzOperator` is symmetric**: a THEOREM, for every band array, every method and every input
structure, when the band is un-batched (the denotation interprets the leaf by the kernel of C09); for a BATCHED band
the leaf is left to the environment, and the statement needs (and only needs) that the two maps of the environment
agree (`LeafSymAt`) and are adjoint (`LeafAdjAt`) -/
theorem toeplitz_symmetric (E : Env) (u : Nat) (p : Params)
    (hS : toepK p.vals = none → LeafSymAt E u p) (hA : toepK p.vals = none → LeafAdjAt E u .toeplitz p) :
    SemSymmetric E (.leaf u .toeplitz p) := by
  by_cases hK : toepK p.vals = none
  · exact semSymmetric_leaf E u _ p rfl (fun x hx => (hS hK x hx).symm) (hA hK)
  · exact semSymmetric_leaf E u _ p rfl (fun x hx => (toeplitz_leaf_sym E u p hK x hx).symm)
      (toeplitz_leaf_adjoint E u p hK)

/-- the un-batched case, no hypothesis at all -/
theorem toeplitz_symmetric_unbatched (E : Env) (u : Nat) (p : Params) (hK : toepK p.vals ≠ none) :
    SemSymmetric E (.leaf u .toeplitz p) :=
  toeplitz_symmetric E u p (fun h => absurd h hK) (fun h => absurd h hK)

/-- **`DiagonalInverseOperator(DiagonalOperator)` is symmetric**, under `diagonalOK p` -/
theorem diagInv_symmetric (E : Env) (w u : Nat) (p : Params) (h : diagonalOK p) :
    SemSymmetric E (.wrap w .diagInv (.leaf u .diagonal p)) := by
  refine SemSymmetric.of_adjoint E _ rfl (transpose_diagInv w _) (fun x _ => ?_) (fun x y hx hy => ?_)
  · rw [denT_eq_den_diagInv]
  · rw [den, denT]
    exact diagonal_leaf_adjoint E u p (pinvT p.vals) rfl h x y hx hy

/-! #### diagonal leaves -/

theorem zipWith_replicate_one (x : V) (n : Nat) (hx : x.length = n) :
    List.zipWith (· * ·) (List.replicate n (1 : ℝ)) x = x := by
  subst hx
  rw [zipWith_replicate_mul]
  simp

/-- **`IdentityOperator` is diagonal**: the diagonal of ones -/
theorem identity_diagonal (E : Env) (u : Nat) (p : Params) : SemDiagonal E (.leaf u .identity p) :=
  SemDiagonal.of_zipWith E _ rfl (List.replicate p.inS.size 1) (by simp [inSize, Op.inS]) fun x hx => by
    have hx' : x.length = p.inS.size := hx
    rw [den_identity E u p x hx', zipWith_replicate_one x _ hx']

/-- **`HomothetyOperator` is diagonal**: the constant diagonal `value` -/
theorem homothety_diagonal (E : Env) (u : Nat) (p : Params) : SemDiagonal E (.leaf u .homothety p) :=
  SemDiagonal.of_zipWith E _ rfl (List.replicate p.inS.size ((p.vals.data.headD 1 : Rat) : ℝ))
    (by simp [inSize, Op.inS]) fun x hx => by
    have hx' : x.length = p.inS.size := hx
    rw [den_homothety E u p x hx', ← hx', zipWith_replicate_mul]
    rfl

/-- **`DiagonalOperator` is diagonal**: the diagonal is `diagVec p`, the values broadcast to every leaf -/
theorem diagonal_diagonal (E : Env) (u : Nat) (p : Params) (h : diagonalOK p) :
    SemDiagonal E (.leaf u .diagonal p) :=
  SemDiagonal.of_zipWith E _ rfl (diagVec p) (diagVec_length p h) fun x hx => den_diagonal E u p h x hx

/-- **`DiagonalInverseOperator(DiagonalOperator)` is diagonal**: the diagonal is the pseudo-inverse of `diagVec p` -/
theorem diagInv_diagonal (E : Env) (w u : Nat) (p : Params) (h : diagonalOK p) :
    SemDiagonal E (.wrap w .diagInv (.leaf u .diagonal p)) :=
  SemDiagonal.of_zipWith E _ rfl ((diagVec p).map pinvR) (by rw [List.length_map]; exact diagVec_length p h)
    fun x hx => den_diagInv E w u p h x hx

/-- the component-wise product of two Stokes samples -/
def svMul (a b : SV ℝ) : SV ℝ := ⟨a.i * b.i, a.q * b.q, a.u * b.u, a.v * b.v⟩

theorem zipWith_range_map (n : Nat) (a b : Nat → ℝ) :
    List.zipWith (· * ·) ((List.range n).map a) ((List.range n).map b) = (List.range n).map fun t => a t * b t := by
  rw [List.zipWith_map, List.zipWith_self]

/-- the entry-wise product of two vectors given by their samples is given by the products of the samples -/
theorem zipWith_ofSamples (k : StokesKind) (n : Nat) (D G : Nat → SV ℝ) :
    List.zipWith (· * ·) (ofSamples k n D) (ofSamples k n G) = ofSamples k n fun t => svMul (D t) (G t) := by
  have r2 : List.range 2 = [0, 1] := rfl
  have r3 : List.range 3 = [0, 1, 2] := rfl
  have r4 : List.range 4 = [0, 1, 2, 3] := rfl
  cases k <;>
    simp only [ofSamples, ncomp, SV.present, svMul, List.length_cons, List.length_nil, List.range_one, r2, r3, r4,
      List.map_cons, List.map_nil, List.flatten_cons, List.flatten_nil, List.append_nil, List.getD_cons_zero,
      List.getD_cons_succ, Nat.zero_add, Nat.reduceAdd]
  · exact zipWith_range_map _ _ _
  · rw [List.zipWith_append (by simp), zipWith_range_map, zipWith_range_map]
  · rw [List.zipWith_append (by simp), List.zipWith_append (by simp), zipWith_range_map, zipWith_range_map,
      zipWith_range_map]
  · rw [List.zipWith_append (by simp), List.zipWith_append (by simp), List.zipWith_append (by simp),
      zipWith_range_map, zipWith_range_map, zipWith_range_map, zipWith_range_map]

/-- the Mueller matrix of an ideal half-wave plate, as a Stokes sample: `diag(1, 1, −1, −1)` -/
def hwpSample : SV ℝ := ⟨1, 1, -1, -1⟩

/-- **the diagonal of `HWPOperator`** on `ncomp k` components of `n` samples: `+1` on I and Q, `−1` on U and V -/
def hwpDiag (k : StokesKind) (n : Nat) : V := ofSamples k n fun _ => hwpSample

theorem hwpDiag_length (k : StokesKind) (n : Nat) : (hwpDiag k n).length = ncomp k * n :=
  stokesMap_length k n (fun _ _ => hwpSample) []

theorem stokesMap_hwp (k : StokesKind) (n : Nat) (x : V) (hx : x.length = ncomp k * n) :
    stokesMap k n (fun _ => SV.hwp) x = List.zipWith (· * ·) (hwpDiag k n) x := by
  conv => rhs; rw [self_eq_ofSamples k n x hx]
  rw [hwpDiag, zipWith_ofSamples, stokesMap_eq_ofSamples]
  congr 1
  funext t
  simp [svMul, hwpSample, SV.hwp]

/-- **`HWPOperator` is diagonal**, under `stokesOK .hwp p` -/
theorem hwp_diagonal (E : Env) (u : Nat) (p : Params) (h : stokesOK .hwp p) : SemDiagonal E (.leaf u .hwp p) := by
  obtain ⟨k, hk⟩ := h.1
  have hsz := stokesOK_size h hk
  refine SemDiagonal.of_zipWith E _ rfl (hwpDiag k (prodNat (leafShape p))) ?_ fun x hx => ?_
  · rw [hwpDiag_length]; exact hsz.symm
  · have hx' : x.length = p.inS.size := hx
    rw [den_hwp E u h hk x hx', stokesMap_hwp k _ x (hx'.trans hsz)]

/-! #### orthogonal classes -/

theorem envAdjOn_leaf_of_not_env (E : Env) (u : Nat) (c : LeafCls) (p : Params) (h : isEnvLeaf c p = false) :
    EnvAdjOn E (.leaf u c p) := by
  simp only [EnvAdjOn, AllLeaves]
  intro h'
  rw [h] at h'
  cases h'

/-- **`IdentityOperator` is orthogonal** — no hypothesis -/
theorem identity_orthogonal (E : Env) (u : Nat) (p : Params) : SemOrthogonal E (.leaf u .identity p) := by
  refine SemOrthogonal.of_inverse E _ (envAdjOn_leaf_of_not_env E u _ p rfl) ?_ ?_ (fun x hx => ?_) (fun y hy => ?_)
  · simp only [Valid, WTExpr, adjLeafOK, listLeafOK]
    exact ⟨trivial, by simp⟩
  · simp [inverseOp, transposeOp, isSymmetricLeaf]
  · have hx' : x.length = p.inS.size := hx
    rw [denT_eq_den_leaf E u _ p (.inl rfl), den_identity E u p x hx', den_identity E u p x hx']
  · have hy' : y.length = p.inS.size := hy
    rw [denT_eq_den_leaf E u _ p (.inl rfl), den_identity E u p y hy', den_identity E u p y hy']

/-- **`QURotationOperator` is orthogonal**, under `stokesOK .qurot p` -/
theorem qurot_orthogonal (E : Env) (u : Nat) (p : Params) (h : stokesOK .qurot p) :
    SemOrthogonal E (.leaf u .qurot p) := by
  refine SemOrthogonal.of_inverse E _ (envAdjOn_leaf_of_not_env E u _ p rfl) ?_ ?_ (fun x hx => ?_) (fun y hy => ?_)
  · simp only [Valid, WTExpr, adjLeafOK, listLeafOK]
    exact ⟨h, by simp⟩
  · simp [inverseOp, transposeOp, isSymmetricLeaf]
  · exact (qurot_inv E u p h x hx).2.2.1
  · exact (qurot_inv E u p h y hy).2.2.2

/-- **`QURotationTransposeOperator(QURotationOperator)` is orthogonal**, under `stokesOK .qurot p` -/
theorem qurotT_orthogonal (E : Env) (w u : Nat) (p : Params) (h : stokesOK .qurot p) :
    SemOrthogonal E (.wrap w .qurotT (.leaf u .qurot p)) := by
  have e1 : den E (.wrap w .qurotT (.leaf u .qurot p)) = denT E (.leaf u .qurot p) :=
    den.eq_5 _ _ _ _ (by simp) (by simp) (by simp)
  have e2 : denT E (.wrap w .qurotT (.leaf u .qurot p)) = den E (.leaf u .qurot p) :=
    denT.eq_5 _ _ _ _ (by simp) (by simp) (by simp)
  refine SemOrthogonal.of_inverse E _ ?_ ?_ ?_ (fun x hx => ?_) (fun y hy => ?_)
  · simp only [EnvAdjOn, AllLeaves]
    intro h'
    cases h'
  · simp only [Valid, WTExpr, adjLeafOK, listLeafOK, WrapOK, WrapCls.isLazy]
    exact ⟨⟨h, by simp⟩, fun _ => ⟨rfl, trivial⟩, fun _ => rfl, by simp, by simp⟩
  · simp [inverseOp, transposeOp]
  · rw [e1, e2]
    exact (qurot_inv E u p h x hx).2.2.2
  · rw [e1, e2]
    exact (qurot_inv E u p h y hy).2.2.1

theorem denT_moveAxis (E : Env) (u : Nat) (p : Params) :
    denT E (.leaf u .moveAxis p) = den E (.leaf 0 .moveAxis (swapMoveAxis p)) := by
  funext y
  rw [den, denT]
  simp only [leafDen, leafDenT, squareLeaf, Bool.false_eq_true, if_false, swapMoveAxis, List.getD_cons_zero,
    List.getD_cons_succ]

/-- **`MoveAxisOperator` has `inverse = transpose`** (set by the class itself; a permutation of the elements between
two DIFFERENT structures), under `moveAxisOK p` -/
theorem moveAxis_orthogonal (E : Env) (u : Nat) (p : Params) (h : moveAxisOK p) :
    SemOrthogonal E (.leaf u .moveAxis p) := by
  obtain ⟨hi, hinv⟩ := moveAxis_inverts E u p h
  refine SemOrthogonal.of_inverse E _ (envAdjOn_leaf_of_not_env E u _ p rfl) ?_ ?_ (fun x hx => ?_) (fun y hy => ?_)
  · simp only [Valid, WTExpr, adjLeafOK, listLeafOK]
    exact ⟨h, by simp⟩
  · rw [hi]
    simp [transposeOp, isSymmetricLeaf, swapMoveAxis]
  · rw [denT_moveAxis]
    exact hinv.left x hx
  · rw [denT_moveAxis]
    exact hinv.right y hy

end ListSem
end Furax
