/-
The Toeplitz leaf kernel of the list denotation (`toepLeaf`, FuraxProofs/Sem/ListSem.lean): the algebra of the
specification `Toeplitz.toep` over `ℝ` (linear in the signal, symmetric), and the entries of `toepLeaf`.

* `toep_smul`, `toep_add`, `toep_congr`: `toep h l band · i` is a linear form of the first `l` entries of the signal;
* `toep_symm`: `Σ_i (T x)_i y_i = Σ_i x_i (T y)_i` — the band matrix `band|i−j|` is symmetric (`dist_comm`);
* `toep_band_congr`: only the band values `band 0 … band h` matter;
* `bandRow_unbatched`, `toepBandAt_unbatched`: for an un-batched band array (`vals.shape = [K]`) every batch row
  reads the band row `0`, i.e. `toepBandAt K vals shape b = toepBand vals`;
* `toepLeaf_length`, `toepLeaf_getD`: the output of `toepLeaf` has the size of the leaf, and its entry at the flat
  position `q` is `toep (K−1) l (band row of q/l) (row q/l) (q % l)`; `toepLeaf_getD_row`: at `b*l + i`, `i < l`, it
  is `toep (K−1) l (band row of b) (row b) i`; `toepLeaf_getD_row_unbatched`: with `toepBand vals` when the band
  is un-batched;
* `toepLeaf_smul`: the kernel commutes with multiplication by a scalar.
Additivity (`toepLeaf_vadd`) is in LinearList.lean, adjointness (`toepLeaf_adjoint`) in AdjointList.lean, next to
the notions they are stated with.
-/
import FuraxProofs.Sem.ListSemLaws
import FuraxProofs.Lemmas.ToeplitzSums
import Mathlib.Data.List.GetD
namespace Furax
namespace ListSem
open Op Toeplitz Finset

/-! ### the specification over `ℝ` -/

theorem toep_smul (h l : Nat) (band x : Nat → ℝ) (a : ℝ) (i : Nat) :
    toep h l band (fun j => a * x j) i = a * toep h l band x i := by
  unfold toep
  rw [sumRange_eq, sumRange_eq, mul_sum]
  exact sum_congr rfl fun j _ => by ring

theorem toep_add (h l : Nat) (band x y : Nat → ℝ) (i : Nat) :
    toep h l band (fun j => x j + y j) i = toep h l band x i + toep h l band y i := by
  unfold toep
  rw [sumRange_eq, sumRange_eq, sumRange_eq, ← sum_add_distrib]
  exact sum_congr rfl fun j _ => by ring

/-- only the first `l` entries of the signal matter -/
theorem toep_congr (h l : Nat) (band x y : Nat → ℝ) (i : Nat) (hxy : ∀ j, j < l → x j = y j) :
    toep h l band x i = toep h l band y i := by
  unfold toep
  rw [sumRange_eq, sumRange_eq]
  exact sum_congr rfl fun j hj => by rw [hxy j (mem_range.mp hj)]

theorem toep_zero (h l : Nat) (band : Nat → ℝ) (i : Nat) : toep h l band (fun _ => 0) i = 0 := by
  unfold toep
  rw [sumRange_eq]
  exact sum_eq_zero fun j _ => by ring

/-- **the banded product is symmetric**: `⟨T x, y⟩ = ⟨x, T y⟩` on one row, for every band array, every half band
width (also `h ≥ l`) and every length -/
theorem toep_symm (h l : Nat) (band x y : Nat → ℝ) :
    ∑ i ∈ range l, toep h l band x i * y i = ∑ i ∈ range l, x i * toep h l band y i := by
  simp only [toep, sumRange_eq, mul_sum, sum_mul]
  rw [sum_comm]
  apply sum_congr rfl; intro j _
  apply sum_congr rfl; intro i _
  rw [Toeplitz.dist_comm i j]; ring

/-- only the band values `band 0 … band h` matter -/
theorem toep_band_congr (h l : Nat) (band band' x : Nat → ℝ) (i : Nat) (hb : ∀ k, k ≤ h → band k = band' k) :
    toep h l band x i = toep h l band' x i := by
  unfold toep
  rw [sumRange_eq, sumRange_eq]
  refine sum_congr rfl fun j _ => ?_
  split
  · next hd => rw [hb _ hd]
  · rfl

/-! ### the band row of a batch row -/

/-- an un-batched band array has one band row: every batch row reads row `0` -/
theorem bandRow_unbatched (K : Nat) (dshape : List Nat) (b : Nat) : bandRow [K] dshape b = 0 := by
  simp [bandRow, bcastIndex, ravelIdx]

/-- **the un-batched case**: the band row of every batch row is the band array itself -/
theorem toepBandAt_unbatched (K : Nat) (vals : Tensor Rat) (hs : vals.shape = [K]) (shape : List Nat) (b : Nat) :
    toepBandAt K vals shape b = toepBand vals := by
  funext k
  simp [toepBandAt, hs, bandRow_unbatched]

/-! ### the entries of `toepLeaf` -/

theorem getD_map_mul (a : ℝ) (x : V) (i : Nat) : (x.map fun v => a * v).getD i 0 = a * x.getD i 0 := by
  simp only [List.getD_eq_getElem?_getD, List.getElem?_map]
  cases x[i]? <;> simp

theorem rowOf_smul (l : Nat) (a : ℝ) (x : V) (b j : Nat) :
    rowOf l (x.map fun v => a * v) b j = a * rowOf l x b j := getD_map_mul a x _

@[simp] theorem toepLeaf_length (K : Nat) (vals : Tensor Rat) (li lo : LeafS) (x : V) :
    (toepLeaf K vals li lo x).length = li.size := by
  simp [toepLeaf]

/-- entry `q` of the output: the banded product of row `q / l` of the input, at position `q % l` -/
theorem toepLeaf_getD (K : Nat) (vals : Tensor Rat) (li lo : LeafS) (x : V) (q : Nat) (hq : q < li.size) :
    (toepLeaf K vals li lo x).getD q 0 =
      toep (K - 1) (li.shape.getLastD 1) (toepBandAt K vals li.shape (q / li.shape.getLastD 1))
        (rowOf (li.shape.getLastD 1) x (q / li.shape.getLastD 1)) (q % li.shape.getLastD 1) := by
  unfold toepLeaf
  simp only []
  rw [List.getD_eq_getElem _ _ (by simpa using hq)]
  simp

/-- **the statement of the kernel**: at the flat position `b*l + i` (`i < l`) the output is
`toep (K−1) l (band row of b) (row b of the input) i` -/
theorem toepLeaf_getD_row (K : Nat) (vals : Tensor Rat) (li lo : LeafS) (x : V) (b i : Nat)
    (hi : i < li.shape.getLastD 1) (hq : b * li.shape.getLastD 1 + i < li.size) :
    (toepLeaf K vals li lo x).getD (b * li.shape.getLastD 1 + i) 0 =
      toep (K - 1) (li.shape.getLastD 1) (toepBandAt K vals li.shape b) (rowOf (li.shape.getLastD 1) x b) i := by
  rw [toepLeaf_getD K vals li lo x _ hq]
  have h1 : (b * li.shape.getLastD 1 + i) / li.shape.getLastD 1 = b := by
    rw [Nat.add_comm, Nat.add_mul_div_right _ _ (by omega), Nat.div_eq_of_lt hi, Nat.zero_add]
  have h2 : (b * li.shape.getLastD 1 + i) % li.shape.getLastD 1 = i := by
    rw [Nat.add_comm, Nat.add_mul_mod_self_right, Nat.mod_eq_of_lt hi]
  rw [h1, h2]

/-- the same for an un-batched band array (`vals.shape = [K]`): the band is `toepBand vals` on every row -/
theorem toepLeaf_getD_row_unbatched (K : Nat) (vals : Tensor Rat) (hs : vals.shape = [K]) (li lo : LeafS) (x : V)
    (b i : Nat) (hi : i < li.shape.getLastD 1) (hq : b * li.shape.getLastD 1 + i < li.size) :
    (toepLeaf K vals li lo x).getD (b * li.shape.getLastD 1 + i) 0 =
      toep (K - 1) (li.shape.getLastD 1) (toepBand vals) (rowOf (li.shape.getLastD 1) x b) i := by
  rw [toepLeaf_getD_row K vals li lo x b i hi hq, toepBandAt_unbatched K vals hs]

/-- the Toeplitz kernel commutes with multiplication by a scalar, for every input list -/
theorem toepLeaf_smul (K : Nat) (vals : Tensor Rat) (li lo : LeafS) (a : ℝ) (x : V) :
    toepLeaf K vals li lo (x.map fun v => a * v) = (toepLeaf K vals li lo x).map fun v => a * v := by
  unfold toepLeaf
  simp only [List.map_map]
  apply List.map_congr_left
  intro q _
  simp only [Function.comp]
  rw [← toep_smul]
  exact toep_congr _ _ _ _ _ _ fun j _ => rowOf_smul _ a x _ j

/-- the size of a leaf of rank `≥ 1` is a multiple of the length of its last axis -/
theorem leaf_size_eq (li : LeafS) (h : li.shape ≠ []) :
    li.size = prodNat li.shape.dropLast * li.shape.getLastD 1 := by
  unfold LeafS.size
  obtain ⟨s, l, hs⟩ : ∃ s l, li.shape = s ++ [l] := ⟨_, _, (List.dropLast_append_getLast h).symm⟩
  rw [hs]
  have hp : ∀ (a b : List Nat), prodNat (a ++ b) = prodNat a * prodNat b := by
    intro a b
    unfold prodNat
    rw [List.foldl_append]
    generalize List.foldl (· * ·) 1 a = m
    induction b generalizing m with
    | nil => simp
    | cons c b ih =>
      simp only [List.foldl_cons]
      rw [ih (m * c), ih (1 * c)]
      ring
  rw [hp, List.dropLast_concat, List.getLastD_concat]
  simp [prodNat]

end ListSem
end Furax
