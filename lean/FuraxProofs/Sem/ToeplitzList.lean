/-
C09, closed, in the list denotation (FuraxProofs/Sem/ListSem.lean): a `SymmetricBandToeplitzOperator` leaf is
interpreted by the banded product `Toeplitz.toep`, independently for every batch row, whatever its method string and
FFT size, and each of the model's four evaluation functions (`applyDense`, `applyDirect`, `applyFft`,
`applyOverlapSave F`, FuraxModel/Toeplitz.lean) computes that same vector, row by row — including `K > l`.
The band array may be un-batched (`p.vals.shape = [K]`) or BATCHED (`p.vals.shape = bs ++ [K]`, in practice
`[ndet, K]`: one band row per detector): batch row `b` of a leaf of shape `ds ++ [l]` uses the band row
`toepBandAt K p.vals (ds ++ [l]) b`, obtained by NumPy broadcasting of the batch axes `bs` against `ds`
(`jnp.vectorize(signature='(n),(k)->(n)')`).

The encoder stores `p.vals` = the band values (shape `bs ++ [K]`), `p.str` = the method, `p.ints = [[fft_size or -1]]`.

0.  the band row of a batch row: `bandRow_eq_bIdx` (it is the index `Tensor.broadcastTo` reads, `bIdx` of
    StokesLaws.lean), `bandRow_lt` (in range when the batch axes broadcast to the leading axes of the leaf, `Bc`),
    `bandRow_same` (`bs = ds`: row `b` reads band row `b`), `bandRow_ones` (`bs = [1, …, 1]`: band row `0`),
    `toepBandAt_eq_broadcastTo` (the band of row `b` is row `b` of `broadcast_to(band_values, ds ++ [K])`, the
    mechanism of `angleAt`), `toepBandAt_eq_getElem` (no default value is read on a valid leaf).
1.  `leafDen_toeplitz`, `leafDenT_toeplitz`, `denT_toeplitz_eq_den`: the denotation of a leaf with `toepK = some K`;
    `den_toeplitz_method_irrelevant`: it depends neither on `p.str` nor on `p.ints`.
2.  `perLeaf_getD_at`: the entries of a leaf-wise map, leaf by leaf;
    `den_toeplitz_entry`: **the denotation is the banded product**: for the leaf `li` of shape `s ++ [l]` at offset
    `off` of the structure, row `b < prod s`, position `i < l`:
    `(den x)[off + b*l + i] = toep (K−1) l (band row of b) (j ↦ x[off + b*l + j]) i`;
    `den_toeplitz_entry_unbatched`: with `toepBand p.vals` for `p.vals.shape = [K]` (the statement as it was before
    batched bands were interpreted).
3.  `den_toeplitz_methods`(`_unbatched`): the same entry is what `applyDense`, `applyDirect`, `applyFft` and
    `applyOverlapSave F` (every `F ≥ 2K − 1`) compute on that row with that band row (Props/C09.lean).
4.  `evalMethod`, `ctor_evalMethod`, `den_toeplitz_ctor`(`_unbatched`): for every configuration `(method, fft_size)`
    the constructor accepts (`toeplitzCtor`), the evaluation function `mv` dispatches to computes the denotation.
    `toeplitzOK_facts`, `toeplitzUnbatchedOK_facts`: what the validity of a leaf gives.
5.  `toeplitz_den_self_adjoint`: `⟨T x, y⟩ = ⟨x, T y⟩`, no assumption on the environment, batched or not.
6.  concrete leaves: two rows of length 3, `K = 4 > l`, un-batched; band arrays of shape `[2, 2]` (one band row per
    row), `[1, 2]` and `[2, 1, 2]` on a leaf of shape `[2, 2, 3]`.
-/
import FuraxProofs.Sem.AdjointList
import FuraxProofs.Props.C09
namespace Furax
namespace ListSem
open Op Toeplitz

/-! ### 0. the band row of a batch row -/

/-- the band row of batch row `b` is the position `Tensor.broadcastTo` reads (`bIdx`, StokesLaws.lean) when the batch
axes `bs` of the band array are broadcast to the leading axes `ds` of the leaf -/
theorem bandRow_eq_bIdx (bs ds : List Nat) (K l b : Nat) : bandRow (bs ++ [K]) (ds ++ [l]) b = bIdx bs ds b := by
  simp [bandRow, bIdx]

/-- when the batch axes broadcast to the leading axes of the leaf, the band row of a batch row exists -/
theorem bandRow_lt (bs ds : List Nat) (K l b : Nat) (hbc : Bc bs ds) (hb : b < prodNat ds) :
    bandRow (bs ++ [K]) (ds ++ [l]) b < prodNat bs := by
  rw [bandRow_eq_bIdx]
  exact bIdx_lt bs ds hbc b hb

/-- **one band row per batch row** (`band_values.shape = ds ++ [K]` on data of shape `ds ++ [l]`, e.g. `(ndet, K)` on
`(ndet, nsamp)`): row `b` uses band row `b` -/
theorem bandRow_same (ds : List Nat) (K l b : Nat) (hb : b < prodNat ds) : bandRow (ds ++ [K]) (ds ++ [l]) b = b := by
  rw [bandRow_eq_bIdx]
  unfold bIdx
  have h := Axes.ma_unravel_valid ds b hb
  rw [Diagonal.bcastIndex_self _ _ h.1, h.2]

theorem prodNat_ones (bs : List Nat) (h1 : ∀ d ∈ bs, d = 1) : prodNat bs = 1 := by
  induction bs with
  | nil => rfl
  | cons d bs ih =>
    rw [Axes.ma_prodNat_cons, h1 d (by simp), ih (fun e he => h1 e (by simp [he]))]

/-- **batch axes of length 1** (`band_values.shape = [1, …, 1, K]`): every row uses band row `0` -/
theorem bandRow_ones (bs ds : List Nat) (K l b : Nat) (h1 : ∀ d ∈ bs, d = 1) (hlen : bs.length ≤ ds.length)
    (hb : b < prodNat ds) : bandRow (bs ++ [K]) (ds ++ [l]) b = 0 := by
  have hbc : Bc bs ds := ⟨hlen, fun j hj => Or.inl (by
    rw [List.getD_eq_getElem _ _ hj]; exact h1 _ (List.getElem_mem hj))⟩
  have := bandRow_lt bs ds K l b hbc hb
  rw [prodNat_ones bs h1] at this
  omega

theorem bcastIndex_concat (s U : List Nat) (K v : Nat) (h : s.length ≤ U.length) :
    bcastIndex (s ++ [K]) (U ++ [v]) = bcastIndex s U ++ [if K = 1 then 0 else v] := by
  unfold bcastIndex
  have e : (U ++ [v]).length - (s ++ [K]).length = U.length - s.length := by simp
  simp only [e]
  rw [List.drop_append_of_le_length (by omega), List.zip_append (by simp; omega), List.map_append]
  simp

/-- the position read in the band array of shape `bs ++ [K]` broadcast to `ds ++ [K]`: band row of `b`, band `k` -/
theorem bIdx_concat (bs ds : List Nat) (K b k : Nat) (hlen : bs.length ≤ ds.length) (hk : k < K) :
    bIdx (bs ++ [K]) (ds ++ [K]) (b * K + k) = bIdx bs ds b * K + k := by
  unfold bIdx
  have hK : prodNat [K] = K := by simp [prodNat]
  have hu : unravel [K] (b * K + k) = [k] := by
    rw [Axes.ma_unravel_cons, Axes.ma_unravel_nil, Axes.ma_prodNat_nil, Nat.div_one, Nat.add_comm,
      Nat.add_mul_mod_self_right, Nat.mod_eq_of_lt hk]
  have hd : (b * K + k) / K = b := by
    rw [Nat.add_comm, Nat.add_mul_div_right _ _ (by omega), Nat.div_eq_of_lt hk, Nat.zero_add]
  rw [unravel_append, hK, hd, hu, bcastIndex_concat _ _ _ _ (by rw [Axes.ma_unravel_length]; exact hlen),
    ravelIdx_append _ _ _ _ (by rw [bcastIndex_length' _ _ (by rw [Axes.ma_unravel_length]; exact hlen)]) (by simp), hK]
  congr 1
  split
  · next h1 => subst h1; simp [ravelIdx]; omega
  · simp [ravelIdx]

/-- **the band row of `b` is row `b` of the band array broadcast to the batch shape of the leaf**
(`numpy.broadcast_to(band_values, ds ++ [K])[b]`, the mechanism of `angleAt`), for a band array of shape `bs ++ [K]`
whose batch rank does not exceed that of the leaf -/
theorem toepBandAt_eq_broadcastTo (K : Nat) (vals : Tensor Rat) (bs ds : List Nat) (l b k : Nat)
    (hs : vals.shape = bs ++ [K]) (hlen : bs.length ≤ ds.length) (hb : b < prodNat ds) (hk : k < K) :
    toepBandAt K vals (ds ++ [l]) b k = ((castT vals).broadcastTo (ds ++ [K])).data.getD (b * K + k) 0 := by
  have ht : b * K + k < prodNat (ds ++ [K]) := by
    rw [prodNat_app]
    have hK : prodNat [K] = K := by simp [prodNat]
    rw [hK]
    calc b * K + k < b * K + K := by omega
      _ = (b + 1) * K := (Nat.succ_mul b K).symm
      _ ≤ prodNat ds * K := Nat.mul_le_mul_right K hb
  rw [broadcastTo_getD _ _ _ ht]
  have hsh : (castT vals).shape = bs ++ [K] := by simp [castT, Tensor.map, hs]
  rw [hsh, bIdx_concat bs ds K b k hlen hk]
  unfold toepBandAt toepBand
  rw [hs, bandRow_eq_bIdx]
  simp only [castT, Tensor.map, List.getD_eq_getElem?_getD, List.getElem?_map]
  cases vals.data[bIdx bs ds b * K + k]? <;> simp <;> rfl

/-- on a valid leaf no default value is read: the band of row `b` is the stored value at `band row · K + k` -/
theorem toepBandAt_eq_getElem (K : Nat) (vals : Tensor Rat) (bs ds : List Nat) (l b k : Nat)
    (hs : vals.shape = bs ++ [K]) (hd : vals.data.length = prodNat bs * K) (hbc : Bc bs ds) (hb : b < prodNat ds)
    (hk : k < K) :
    ∃ h : bandRow vals.shape (ds ++ [l]) b * K + k < vals.data.length,
      toepBandAt K vals (ds ++ [l]) b k = ((vals.data[bandRow vals.shape (ds ++ [l]) b * K + k] : Rat) : ℝ) := by
  have hr := bandRow_lt bs ds K l b hbc hb
  rw [← hs] at hr
  have hlt : bandRow vals.shape (ds ++ [l]) b * K + k < vals.data.length := by
    rw [hd]
    calc bandRow vals.shape (ds ++ [l]) b * K + k < bandRow vals.shape (ds ++ [l]) b * K + K := by omega
      _ = (bandRow vals.shape (ds ++ [l]) b + 1) * K := (Nat.succ_mul _ K).symm
      _ ≤ prodNat bs * K := Nat.mul_le_mul_right K hr
  refine ⟨hlt, ?_⟩
  unfold toepBandAt toepBand
  rw [List.getD_eq_getElem _ _ hlt]

/-! ### 1. the denotation of a Toeplitz leaf (band array with a last axis: `toepK p.vals = some K`) -/

theorem leafDen_toeplitz (E : Env) (u : Nat) (p : Params) (K : Nat) (hK : toepK p.vals = some K) (x : V) :
    leafDen E u .toeplitz p x =
      fit p.inS.size (perLeaf (toepLeaf K p.vals) p.inS.leaves p.inS.leaves (fit p.inS.size x)) := by
  simp only [leafDen, squareLeaf, if_true, hK]

theorem leafDenT_toeplitz (E : Env) (u : Nat) (p : Params) (K : Nat) (hK : toepK p.vals = some K) (y : V) :
    leafDenT E u .toeplitz p y =
      fit p.inS.size (perLeaf (toepLeaf K p.vals) p.inS.leaves p.inS.leaves (fit p.inS.size y)) := by
  simp only [leafDenT, squareLeaf, if_true, hK]

/-- the operator is `@symmetric`: `op.T.mv` is `op.mv`, on EVERY input -/
theorem denT_toeplitz_eq_den (E : Env) (u : Nat) (p : Params) (hK : toepK p.vals ≠ none) :
    denT E (.leaf u .toeplitz p) = den E (.leaf u .toeplitz p) := by
  obtain ⟨K, hK⟩ := Option.ne_none_iff_exists'.mp hK
  funext y
  rw [den, denT, leafDen_toeplitz E u p K hK, leafDenT_toeplitz E u p K hK]

/-- **the denotation depends neither on the method nor on the FFT size** -/
theorem den_toeplitz_method_irrelevant (E : Env) (u : Nat) (p : Params) (hK : toepK p.vals ≠ none)
    (method : String) (ints : List (List Int)) :
    den E (.leaf u .toeplitz { p with str := method, ints := ints }) = den E (.leaf u .toeplitz p) := by
  obtain ⟨K, hK⟩ := Option.ne_none_iff_exists'.mp hK
  funext x
  have h := leafDen_toeplitz E u { p with str := method, ints := ints } K hK x
  rw [den, den, leafDen_toeplitz E u p K hK]
  exact h

/-! ### 2. entries -/

theorem fit_getD (n : Nat) (x : V) (i : Nat) (h : i < n) : (fit n x).getD i 0 = x.getD i 0 := by
  induction n generalizing x i with
  | zero => omega
  | succ n ih =>
    cases x with
    | nil =>
      rw [fit_nil, List.getD_eq_getElem _ _ (by simpa using h)]
      simp
    | cons a x =>
      rw [fit_succ_cons]
      cases i with
      | zero => rfl
      | succ i => simp only [List.getD_cons_succ]; exact ih x i (by omega)

theorem drop_getD (n : Nat) (x : V) (i : Nat) : (x.drop n).getD i 0 = x.getD (n + i) 0 := by
  simp only [List.getD_eq_getElem?_getD, List.getElem?_drop]

theorem headChunk_getD (n : Nat) (x : V) (i : Nat) (h : i < n) : (headChunk n x).getD i 0 = x.getD i 0 := by
  rw [headChunk_eq_fit, fit_getD n x i h]

/-- the entries of a leaf-wise map on the leaf `li` that sits after the leaves `pre` -/
theorem perLeaf_getD_at (f : LeafS → LeafS → V → V) (pre : List LeafS) (li : LeafS) (post : List LeafS) (x : V)
    (q : Nat) (hq : q < li.size) :
    (perLeaf f (pre ++ li :: post) (pre ++ li :: post) x).getD ((pre.map LeafS.size).sum + q) 0 =
      (f li li (headChunk li.size (x.drop (pre.map LeafS.size).sum))).getD q 0 := by
  induction pre generalizing x with
  | nil =>
    simp only [List.nil_append, List.map_nil, List.sum_nil, Nat.zero_add, List.drop_zero]
    rw [perLeaf_cons, List.getD_append _ _ _ _ (by rw [fit_length]; exact hq), fit_getD _ _ _ hq]
  | cons a pre ih =>
    simp only [List.cons_append, List.map_cons, List.sum_cons]
    rw [perLeaf_cons, List.getD_append_right _ _ _ _ (by rw [fit_length]; omega), fit_length]
    have e : a.size + (pre.map LeafS.size).sum + q - a.size = (pre.map LeafS.size).sum + q := by omega
    rw [e, ih (x.drop a.size), List.drop_drop]

/-- the structure size bounds the offsets of its leaves -/
theorem struct_size_split (s : Struct) (pre : List LeafS) (li : LeafS) (post : List LeafS)
    (h : s.leaves = pre ++ li :: post) :
    s.size = (pre.map LeafS.size).sum + li.size + (post.map LeafS.size).sum := by
  unfold Struct.size
  rw [h]
  simp [Nat.add_assoc]

/-- **C09, closed: the denotation of a Toeplitz leaf is the banded product**, leaf by leaf and, independently, row
by row along the last axis.  For the leaf `li` of shape `s ++ [l]` sitting at offset `off = Σ sizes of the preceding
leaves`, row `b < prod s` and position `i < l`, the output at the flat position `off + b*l + i` is
`toep (K−1) l (band row of b) (row b of that leaf of the input) i = Σ_j [|i−j| < K] band_b|i−j| · x[off + b*l + j]`,
where `band_b = toepBandAt K p.vals (s ++ [l]) b` is the row of the band array (shape `bs ++ [K]`) that NumPy
broadcasting of `bs` against `s` assigns to the batch row `b` (section 0);
for EVERY input list `x`, every `K` (also `K > l`), every band array (batched or not), every method string and FFT
size. -/
theorem den_toeplitz_entry (E : Env) (u : Nat) (p : Params) (K : Nat) (hK : toepK p.vals = some K) (x : V)
    (pre : List LeafS) (li : LeafS) (post : List LeafS) (hleaves : p.inS.leaves = pre ++ li :: post)
    (s : List Nat) (l : Nat) (hshape : li.shape = s ++ [l]) (b i : Nat) (hb : b < prodNat s) (hi : i < l) :
    (den E (.leaf u .toeplitz p) x).getD ((pre.map LeafS.size).sum + b * l + i) 0 =
      toep (K - 1) l (toepBandAt K p.vals (s ++ [l]) b)
        (fun j => x.getD ((pre.map LeafS.size).sum + b * l + j) 0) i := by
  have hl : li.shape.getLastD 1 = l := by rw [hshape, List.getLastD_concat]
  have hsz : li.size = prodNat s * l := by
    have := leaf_size_eq li (by rw [hshape]; simp)
    rw [hl, hshape, List.dropLast_concat] at this
    exact this
  have hrow : ∀ j, j < l → b * l + j < li.size := by
    intro j hj
    rw [hsz]
    calc b * l + j < b * l + l := by omega
      _ = (b + 1) * l := (Nat.succ_mul b l).symm
      _ ≤ prodNat s * l := Nat.mul_le_mul_right l hb
  have hN := struct_size_split p.inS pre li post hleaves
  rw [den, leafDen_toeplitz E u p K hK, Nat.add_assoc,
    fit_getD _ _ _ (by have := hrow i hi; omega), hleaves,
    perLeaf_getD_at _ pre li post _ (b * l + i) (hrow i hi)]
  have := toepLeaf_getD_row K p.vals li li
    (headChunk li.size ((fit p.inS.size x).drop (pre.map LeafS.size).sum)) b i (by rw [hl]; exact hi)
    (by rw [hl]; exact hrow i hi)
  rw [hl, hshape] at this
  rw [this]
  apply toep_congr
  intro j hj
  unfold rowOf
  rw [headChunk_getD _ _ _ (hrow j hj), drop_getD, fit_getD _ _ _ (by have := hrow j hj; omega), Nat.add_assoc]

theorem toepK_of_unbatched {vals : Tensor Rat} {K : Nat} (hs : vals.shape = [K]) : toepK vals = some K := by
  simp [toepK, hs]

/-- **the un-batched case** (`p.vals.shape = [K]`, what `toepK p.vals = some K` meant before batched bands were
interpreted): the same band `toepBand p.vals` on every row of every leaf -/
theorem den_toeplitz_entry_unbatched (E : Env) (u : Nat) (p : Params) (K : Nat) (hs : p.vals.shape = [K]) (x : V)
    (pre : List LeafS) (li : LeafS) (post : List LeafS) (hleaves : p.inS.leaves = pre ++ li :: post)
    (s : List Nat) (l : Nat) (hshape : li.shape = s ++ [l]) (b i : Nat) (hb : b < prodNat s) (hi : i < l) :
    (den E (.leaf u .toeplitz p) x).getD ((pre.map LeafS.size).sum + b * l + i) 0 =
      toep (K - 1) l (toepBand p.vals) (fun j => x.getD ((pre.map LeafS.size).sum + b * l + j) 0) i := by
  rw [den_toeplitz_entry E u p K (toepK_of_unbatched hs) x pre li post hleaves s l hshape b i hb hi,
    toepBandAt_unbatched K p.vals hs]

/-! ### 3. the four evaluation methods compute the denotation -/

/-- **C09, closed: all four evaluation methods compute the denotation**, row by row: on the row `b` of the leaf `li`
(shape `s ++ [l]`, offset `off`), with the band row of `b` (`toepBandAt`), `_apply_dense`, `_apply_direct`,
`_apply_fft` and `_apply_overlap_save` with any admissible FFT size `F ≥ 2K − 1` return, at position `i < l`, the entry
`off + b*l + i` of `den E leaf x` — for every `K ≥ 1`, including `K > l`, every band array, batched or not -/
theorem den_toeplitz_methods (E : Env) (u : Nat) (p : Params) (K : Nat) (hK1 : 1 ≤ K)
    (hK : toepK p.vals = some K) (x : V)
    (pre : List LeafS) (li : LeafS) (post : List LeafS) (hleaves : p.inS.leaves = pre ++ li :: post)
    (s : List Nat) (l : Nat) (hshape : li.shape = s ++ [l]) (b i : Nat) (hb : b < prodNat s) (hi : i < l) :
    let band : Nat → ℝ := toepBandAt K p.vals (s ++ [l]) b
    let row : Nat → ℝ := fun j => x.getD ((pre.map LeafS.size).sum + b * l + j) 0
    let out : ℝ := (den E (.leaf u .toeplitz p) x).getD ((pre.map LeafS.size).sum + b * l + i) 0
    applyDense (K - 1) l band row i = out ∧
    applyDirect (K - 1) l band row i = out ∧
    applyFft (K - 1) l band row i = out ∧
    ∀ F, 2 * K - 1 ≤ F → applyOverlapSave F (K - 1) l band row i = out := by
  intro band row out
  have hout : out = toep (K - 1) l band row i :=
    den_toeplitz_entry E u p K hK x pre li post hleaves s l hshape b i hb hi
  rw [hout]
  refine ⟨C09.dense_correct _ _ _ _ i hi, C09.direct_correct _ _ _ _ i hi, C09.fft_correct _ _ _ _ i hi, ?_⟩
  intro F hF
  exact C09.overlapSave_correct F _ _ _ _ (by omega) i hi

/-- the un-batched case (`p.vals.shape = [K]`): the statement as it was before batched bands were interpreted -/
theorem den_toeplitz_methods_unbatched (E : Env) (u : Nat) (p : Params) (K : Nat) (hK1 : 1 ≤ K)
    (hs : p.vals.shape = [K]) (x : V)
    (pre : List LeafS) (li : LeafS) (post : List LeafS) (hleaves : p.inS.leaves = pre ++ li :: post)
    (s : List Nat) (l : Nat) (hshape : li.shape = s ++ [l]) (b i : Nat) (hb : b < prodNat s) (hi : i < l) :
    let row : Nat → ℝ := fun j => x.getD ((pre.map LeafS.size).sum + b * l + j) 0
    let out : ℝ := (den E (.leaf u .toeplitz p) x).getD ((pre.map LeafS.size).sum + b * l + i) 0
    applyDense (K - 1) l (toepBand p.vals) row i = out ∧
    applyDirect (K - 1) l (toepBand p.vals) row i = out ∧
    applyFft (K - 1) l (toepBand p.vals) row i = out ∧
    ∀ F, 2 * K - 1 ≤ F → applyOverlapSave F (K - 1) l (toepBand p.vals) row i = out := by
  have h := den_toeplitz_methods E u p K hK1 (toepK_of_unbatched hs) x pre li post hleaves s l hshape b i hb hi
  rw [toepBandAt_unbatched K p.vals hs] at h
  exact h

/-! ### 4. every configuration the constructor accepts -/

/-- the evaluation function `SymmetricBandToeplitzOperator.mv` dispatches to, by method (the dispatch of the
compiled driver, FuraxModel/Driver.lean `handleToeplitz`); `F` is only read by `overlap_save` -/
noncomputable def evalMethod (method : String) (F h l : Nat) (band x : Nat → ℝ) : Option (Nat → ℝ) :=
  if method = "dense" then some (applyDense h l band x)
  else if method = "direct" then some (applyDirect h l band x)
  else if method = "fft" then some (applyFft h l band x)
  else if method = "overlap_save" then some (applyOverlapSave F h l band x)
  else none

/-- the `fft_size` argument as the encoder stores it: `p.ints = [[f]]`, a negative `f` (`-1`) standing for `None` -/
def fftArg (p : Params) : Option Nat :=
  match p.ints with
  | [[f]] => if f < 0 then none else some f.toNat
  | _ => none

/-- **whatever the constructor accepts computes the banded product**: if `toeplitzCtor method K fft` returns
`.ok r` (`r` = the FFT size the operator keeps, `none` for the methods that have none), the evaluation function of
`method` exists and returns `toep (K−1) l band x` on `[0, l)` -/
theorem ctor_evalMethod (method : String) (K : Nat) (hK1 : 1 ≤ K) (fft r : Option Nat)
    (hc : toeplitzCtor method K fft = .ok r) (l : Nat) (band x : Nat → ℝ) :
    ∃ y, evalMethod method (r.getD 0) (K - 1) l band x = some y ∧
      ∀ i, i < l → y i = toep (K - 1) l band x i := by
  by_cases h1 : method = "dense"
  · subst h1
    exact ⟨_, by simp [evalMethod], fun i hi => C09.dense_correct _ _ _ _ i hi⟩
  by_cases h2 : method = "direct"
  · subst h2
    exact ⟨_, by simp [evalMethod], fun i hi => C09.direct_correct _ _ _ _ i hi⟩
  by_cases h3 : method = "fft"
  · subst h3
    exact ⟨_, by simp [evalMethod], fun i hi => C09.fft_correct _ _ _ _ i hi⟩
  by_cases h4 : method = "overlap_save"
  · subst h4
    obtain ⟨F, rfl⟩ : ∃ F, r = some F := by
      unfold toeplitzCtor at hc
      have hm : (["dense", "direct", "fft", "overlap_save"].contains "overlap_save") = true := by decide
      have ho : ("overlap_save" == "overlap_save") = true := by decide
      simp only [hm, ho, Bool.not_true, Bool.false_eq_true, if_false, if_true] at hc
      cases fft with
      | some g =>
        simp only at hc
        split at hc
        · simp at hc
        · simp only [ToeplitzCtor.ok.injEq] at hc; exact ⟨g, hc.symm⟩
      | none => simp only [ToeplitzCtor.ok.injEq] at hc; exact ⟨_, hc.symm⟩
    have hF := C09.ctor_fft_admissible K F fft hc
    refine ⟨applyOverlapSave F (K - 1) l band x, by simp [evalMethod], fun i hi => ?_⟩
    exact C09.overlapSave_correct F _ _ _ _ (by omega) i hi
  · exfalso
    unfold toeplitzCtor at hc
    simp [h1, h2, h3, h4] at hc

/-- **C09, closed, for the leaf's own configuration**: when the method `p.str` and FFT size `p.ints` of a
`toeplitzOK` leaf are a configuration the constructor accepts, the evaluation function `mv` dispatches to returns,
on every row of every leaf (with the band row of that row), the entries of the denotation -/
theorem den_toeplitz_ctor (E : Env) (u : Nat) (p : Params) (K : Nat) (hK1 : 1 ≤ K)
    (hK : toepK p.vals = some K) (r : Option Nat) (hc : toeplitzCtor p.str K (fftArg p) = .ok r) (x : V)
    (pre : List LeafS) (li : LeafS) (post : List LeafS) (hleaves : p.inS.leaves = pre ++ li :: post)
    (s : List Nat) (l : Nat) (hshape : li.shape = s ++ [l]) (b : Nat) (hb : b < prodNat s) :
    ∃ y, evalMethod p.str (r.getD 0) (K - 1) l (toepBandAt K p.vals (s ++ [l]) b)
        (fun j => x.getD ((pre.map LeafS.size).sum + b * l + j) 0) = some y ∧
      ∀ i, i < l → y i = (den E (.leaf u .toeplitz p) x).getD ((pre.map LeafS.size).sum + b * l + i) 0 := by
  obtain ⟨y, hy, hyi⟩ := ctor_evalMethod p.str K hK1 (fftArg p) r hc l (toepBandAt K p.vals (s ++ [l]) b)
    (fun j => x.getD ((pre.map LeafS.size).sum + b * l + j) 0)
  refine ⟨y, hy, fun i hi => ?_⟩
  rw [hyi i hi, den_toeplitz_entry E u p K hK x pre li post hleaves s l hshape b i hb hi]

/-- the un-batched case (`p.vals.shape = [K]`): the statement as it was before batched bands were interpreted -/
theorem den_toeplitz_ctor_unbatched (E : Env) (u : Nat) (p : Params) (K : Nat) (hK1 : 1 ≤ K)
    (hs : p.vals.shape = [K]) (r : Option Nat) (hc : toeplitzCtor p.str K (fftArg p) = .ok r) (x : V)
    (pre : List LeafS) (li : LeafS) (post : List LeafS) (hleaves : p.inS.leaves = pre ++ li :: post)
    (s : List Nat) (l : Nat) (hshape : li.shape = s ++ [l]) (b : Nat) (hb : b < prodNat s) :
    ∃ y, evalMethod p.str (r.getD 0) (K - 1) l (toepBand p.vals)
        (fun j => x.getD ((pre.map LeafS.size).sum + b * l + j) 0) = some y ∧
      ∀ i, i < l → y i = (den E (.leaf u .toeplitz p) x).getD ((pre.map LeafS.size).sum + b * l + i) 0 := by
  have h := den_toeplitz_ctor E u p K hK1 (toepK_of_unbatched hs) r hc x pre li post hleaves s l hshape b hb
  rw [toepBandAt_unbatched K p.vals hs] at h
  exact h

/-- the statements above apply to every `toeplitzOK` leaf: its band array has shape `bs ++ [K]` with `K ≥ 1` and
`prod bs · K` values; every leaf has a last axis and leading axes `ds` the batch axes `bs` broadcast to; and for every
batch row `b < prod ds` the band row of `b` exists (`< prod bs`) and `band_b k = p.vals.data[bandRow · K + k]` for
`k < K` — no default value is ever read -/
theorem toeplitzOK_facts (p : Params) (h : toeplitzOK p) :
    ∃ bs K, 1 ≤ K ∧ p.vals.shape = bs ++ [K] ∧ toepK p.vals = some K ∧ p.vals.data.length = prodNat bs * K ∧
      ∀ li ∈ p.inS.leaves, ∃ ds l, li.shape = ds ++ [l] ∧ Bc bs ds ∧
        ∀ b, b < prodNat ds → bandRow p.vals.shape li.shape b < prodNat bs ∧
          ∀ k, k < K → ∃ hk : bandRow p.vals.shape li.shape b * K + k < p.vals.data.length,
            toepBandAt K p.vals li.shape b k = ((p.vals.data[bandRow p.vals.shape li.shape b * K + k] : Rat) : ℝ) := by
  obtain ⟨bs, K, hK1, hs, hd, hr⟩ := h
  refine ⟨bs, K, hK1, hs, by simp [toepK, hs], hd, fun li hli => ?_⟩
  obtain ⟨hne, hbc⟩ := hr li hli
  have hsh : li.shape = li.shape.dropLast ++ [li.shape.getLast hne] := (List.dropLast_append_getLast hne).symm
  refine ⟨_, _, hsh, hbc, fun b hb => ⟨?_, fun k hk => ?_⟩⟩
  · rw [hsh, hs]
    exact bandRow_lt bs _ K _ b hbc hb
  · rw [hsh]
    exact toepBandAt_eq_getElem K p.vals bs _ _ b k hs hd hbc hb hk

/-- the un-batched case, as it was stated before batched bands were interpreted: the band has `K ≥ 1` values,
`band k = p.vals.data[k]` for `k < K`, and every leaf has a last axis -/
theorem toeplitzUnbatchedOK_facts (p : Params) (h : toeplitzUnbatchedOK p) :
    ∃ K, 1 ≤ K ∧ toepK p.vals = some K ∧ p.vals.data.length = K ∧
      (∀ k (hk : k < p.vals.data.length), toepBand p.vals k = ((p.vals.data[k] : Rat) : ℝ)) ∧
      ∀ li ∈ p.inS.leaves, ∃ s l, li.shape = s ++ [l] := by
  obtain ⟨⟨K, hK1, hs, hd⟩, hr⟩ := h
  refine ⟨K, hK1, by simp [toepK, hs], hd, fun k hk => ?_, fun li hli => ?_⟩
  · unfold toepBand
    rw [List.getD_eq_getElem _ _ hk]
  · exact ⟨_, _, (List.dropLast_append_getLast (hr li hli)).symm⟩

/-! ### 5. self-adjointness, without any assumption on the environment -/

/-- **a Toeplitz leaf (band array `bs ++ [K]`, batched or not) is self-adjoint in the list denotation**:
`⟨T x, y⟩ = ⟨x, T y⟩` for all `x`, `y` of the size of the structure — and `T.T` is `T` (`denT_toeplitz_eq_den`) -/
theorem toeplitz_den_self_adjoint (E : Env) (u : Nat) (p : Params) (hK : toepK p.vals ≠ none) (x y : V)
    (hx : x.length = p.inS.size) (hy : y.length = p.inS.size) :
    dot (den E (.leaf u .toeplitz p) x) y = dot x (den E (.leaf u .toeplitz p) y) := by
  have := toeplitz_leaf_adjoint E u p hK x y hx (by simpa [Op.outS, squareLeaf] using hy)
  rw [den]
  rw [this]
  have h2 := congrFun (denT_toeplitz_eq_den E u p hK) y
  rw [den, denT] at h2
  rw [h2]

/-- the same from the validity of the leaf -/
theorem toeplitzOK_self_adjoint (E : Env) (u : Nat) (p : Params) (h : toeplitzOK p) (x y : V)
    (hx : x.length = p.inS.size) (hy : y.length = p.inS.size) :
    dot (den E (.leaf u .toeplitz p) x) y = dot x (den E (.leaf u .toeplitz p) y) := by
  obtain ⟨K, _, hK⟩ := h.toepK
  exact toeplitz_den_self_adjoint E u p (by rw [hK]; simp) x y hx hy

/-- an expression made of a valid Toeplitz leaf only needs NO assumption on the environment for the closed
adjointness theorem -/
theorem toeplitz_envAdjOn (E : Env) (u : Nat) (p : Params) (hK : toepK p.vals ≠ none) :
    EnvAdjOn E (.leaf u .toeplitz p) ∧ EnvSymOn E (.leaf u .toeplitz p) := by
  constructor
  · simp only [EnvAdjOn, AllLeaves]
    exact fun _ => toeplitz_leaf_adjoint E u p hK
  · simp only [EnvSymOn, AllLeaves]
    exact fun _ hn => absurd hn hK

/-! ### 6. concrete leaves -/

namespace ToeplitzExample

/-! two rows of length 3, four bands (`K = 4 > l = 3`), un-batched -/

def sT : Struct := ⟨[.leaf], [⟨[2, 3], .f64⟩]⟩
def tP : Params := { inS := sT, outS := sT, vals := ⟨[4], [4, 1, 2, 7]⟩, str := "overlap_save", ints := [[8]] }

theorem tP_unbatched_ok : toeplitzUnbatchedOK tP := by
  refine ⟨⟨4, by decide, rfl, rfl⟩, ?_⟩
  intro l hl
  simp only [tP, sT, List.mem_singleton] at hl
  subst hl
  simp

theorem tP_ok : toeplitzOK tP := toeplitzOK_of_unbatched tP_unbatched_ok

theorem tP_ctor : toeplitzCtor tP.str 4 (fftArg tP) = .ok (some 8) := by decide

/-- entry `(1, 0)` of the output on `x = [x₀ … x₅]`: `4·x₃ + 1·x₄ + 2·x₅` (the fourth band, `7`, is out of reach) -/
example (E : Env) (x0 x1 x2 x3 x4 x5 : ℝ) :
    (den E (.leaf 1 .toeplitz tP) [x0, x1, x2, x3, x4, x5]).getD 3 0 = 4 * x3 + 1 * x4 + 2 * x5 := by
  have h := den_toeplitz_entry_unbatched E 1 tP 4 rfl [x0, x1, x2, x3, x4, x5] [] ⟨[2, 3], .f64⟩ [] rfl [2] 3 rfl 1 0
    (by decide) (by decide)
  simp only [List.map_nil, List.sum_nil, Nat.zero_add, Nat.one_mul, Nat.add_zero] at h
  rw [h]
  simp [toep, sumRange, Toeplitz.dist, toepBand, tP, List.range_succ]

/-! **a batched band**: one band row per row, `band_values.shape = (2, 2)` on data of shape `(2, 3)` — the docstring
example of the Python class with other values: row 0 uses the band `[4, 1]`, row 1 the band `[2, 7]` -/

def tB : Params := { inS := sT, outS := sT, vals := ⟨[2, 2], [4, 1, 2, 7]⟩, str := "fft", ints := [[-1]] }

theorem tB_ok : toeplitzOK tB := by
  refine ⟨[2], 2, by decide, rfl, rfl, ?_⟩
  intro l hl
  simp only [tB, sT, List.mem_singleton] at hl
  subst hl
  exact ⟨by simp, by decide⟩

theorem tB_K : toepK tB.vals = some 2 := rfl

theorem tB_ctor : toeplitzCtor tB.str 2 (fftArg tB) = .ok none := by decide

/-- not an un-batched leaf: before the generalisation this leaf was handed to the environment -/
example : ¬ toeplitzUnbatchedOK tB := by
  rintro ⟨⟨K, _, hs, _⟩, _⟩
  simp [tB] at hs

/-- entries `(0, 0)` and `(1, 0)` of the output: each row with ITS band row -/
example (E : Env) (x0 x1 x2 x3 x4 x5 : ℝ) :
    (den E (.leaf 1 .toeplitz tB) [x0, x1, x2, x3, x4, x5]).getD 0 0 = 4 * x0 + 1 * x1 ∧
    (den E (.leaf 1 .toeplitz tB) [x0, x1, x2, x3, x4, x5]).getD 3 0 = 2 * x3 + 7 * x4 := by
  have h0 := den_toeplitz_entry E 1 tB 2 rfl [x0, x1, x2, x3, x4, x5] [] ⟨[2, 3], .f64⟩ [] rfl [2] 3 rfl 0 0
    (by decide) (by decide)
  have h1 := den_toeplitz_entry E 1 tB 2 rfl [x0, x1, x2, x3, x4, x5] [] ⟨[2, 3], .f64⟩ [] rfl [2] 3 rfl 1 0
    (by decide) (by decide)
  simp only [List.map_nil, List.sum_nil, Nat.zero_add, Nat.one_mul, Nat.zero_mul, Nat.add_zero] at h0 h1
  have r0 : bandRow [2, 2] [2, 3] 0 = 0 := by decide
  have r1 : bandRow [2, 2] [2, 3] 1 = 1 := by decide
  rw [h0, h1]
  constructor <;>
    simp [toep, sumRange, Toeplitz.dist, toepBandAt, toepBand, tB, r0, r1, List.range_succ]

/-- the band rows of `tB` through the general lemma: `bs = ds = [2]` -/
example (b : Nat) (hb : b < 2) : bandRow tB.vals.shape ([2] ++ [3]) b = b :=
  bandRow_same [2] 2 3 b (by simpa [prodNat] using hb)

/-! **broadcast batch axes**: `band_values.shape = (1, 2)` on data `(2, 3)` (every row uses the only band row), and
`band_values.shape = (2, 1, 2)` on data `(2, 2, 3)` (rows `(a, ·)` use band row `a`) -/

def tB1 : Params := { inS := sT, outS := sT, vals := ⟨[1, 2], [4, 1]⟩, str := "dense", ints := [[-1]] }

theorem tB1_ok : toeplitzOK tB1 := by
  refine ⟨[1], 2, by decide, rfl, rfl, ?_⟩
  intro l hl
  simp only [tB1, sT, List.mem_singleton] at hl
  subst hl
  exact ⟨by simp, by decide⟩

example (E : Env) (x : V) :
    (den E (.leaf 1 .toeplitz tB1) x).getD 3 0 = 4 * x.getD 3 0 + 1 * x.getD 4 0 := by
  have h1 := den_toeplitz_entry E 1 tB1 2 rfl x [] ⟨[2, 3], .f64⟩ [] rfl [2] 3 rfl 1 0 (by decide) (by decide)
  simp only [List.map_nil, List.sum_nil, Nat.zero_add, Nat.one_mul, Nat.add_zero] at h1
  have r1 : bandRow [1, 2] [2, 3] 1 = 0 := by decide
  rw [h1]
  simp [toep, sumRange, Toeplitz.dist, toepBandAt, toepBand, tB1, r1, List.range_succ]

def sT3 : Struct := ⟨[.leaf], [⟨[2, 2, 3], .f64⟩]⟩
def tB3 : Params := { inS := sT3, outS := sT3, vals := ⟨[2, 1, 2], [4, 1, 2, 7]⟩, str := "direct", ints := [[-1]] }

theorem tB3_ok : toeplitzOK tB3 := by
  refine ⟨[2, 1], 2, by decide, rfl, rfl, ?_⟩
  intro l hl
  simp only [tB3, sT3, List.mem_singleton] at hl
  subst hl
  exact ⟨by simp, by decide⟩

/-- batch rows `1 = (0, 1)` and `3 = (1, 1)` of the leaf `(2, 2, 3)`: band rows `0` and `1` of the `(2, 1, 2)` array -/
example (E : Env) (x : V) :
    (den E (.leaf 1 .toeplitz tB3) x).getD 3 0 = 4 * x.getD 3 0 + 1 * x.getD 4 0 ∧
    (den E (.leaf 1 .toeplitz tB3) x).getD 9 0 = 2 * x.getD 9 0 + 7 * x.getD 10 0 := by
  have h1 := den_toeplitz_entry E 1 tB3 2 rfl x [] ⟨[2, 2, 3], .f64⟩ [] rfl [2, 2] 3 rfl 1 0 (by decide) (by decide)
  have h3 := den_toeplitz_entry E 1 tB3 2 rfl x [] ⟨[2, 2, 3], .f64⟩ [] rfl [2, 2] 3 rfl 3 0 (by decide) (by decide)
  simp only [List.map_nil, List.sum_nil, Nat.zero_add, Nat.one_mul, Nat.add_zero] at h1 h3
  have r1 : bandRow [2, 1, 2] [2, 2, 3] 1 = 0 := by decide
  have r3 : bandRow [2, 1, 2] [2, 2, 3] 3 = 1 := by decide
  rw [h1, h3]
  constructor <;>
    simp [toep, sumRange, Toeplitz.dist, toepBandAt, toepBand, tB3, r1, r3, List.range_succ]

/-! **outside `toeplitzOK`**: `band_values.shape = (2, 2)` on data of shape `(3,)` — the batch axes broadcast WITH the
(empty) leading axes of the data but not TO them.  The Python constructor accepts it, `mv` then returns an array of
shape `(2, 3)` although `in_structure() = out_structure()` has shape `(3,)` (REPORT.md); the denotation (which always
returns a vector of the size of the leaf) does not describe that leaf, and `toeplitzOK` excludes it. -/

def sT1 : Struct := ⟨[.leaf], [⟨[3], .f64⟩]⟩
def tBad : Params := { inS := sT1, outS := sT1, vals := ⟨[2, 2], [4, 1, 2, 7]⟩, str := "dense", ints := [[-1]] }

example : ¬ toeplitzOK tBad := by
  rintro ⟨bs, K, _, hs, _, hr⟩
  have hbs : bs = [2] := by
    have := congrArg List.dropLast hs
    simpa [tBad] using this.symm
  subst hbs
  have := (hr ⟨[3], .f64⟩ (by simp [tBad, sT1])).2
  revert this
  decide

/-- all four evaluation kernels and the accepted configuration on the batched leaf `tB`, row 1 -/
example (E : Env) (x : V) :=
  den_toeplitz_methods E 1 tB 2 (by decide) tB_K x [] ⟨[2, 3], .f64⟩ [] rfl [2] 3 rfl 1 0 (by decide) (by decide)
example (E : Env) (x : V) :=
  den_toeplitz_ctor E 1 tB 2 (by decide) tB_K none tB_ctor x [] ⟨[2, 3], .f64⟩ [] rfl [2] 3 rfl 1 (by decide)

/-- the batched leaf is self-adjoint and its own transpose, for every environment -/
example (E : Env) (x y : V) (hx : x.length = 6) (hy : y.length = 6) :
    dot (den E (.leaf 1 .toeplitz tB) x) y = dot x (den E (.leaf 1 .toeplitz tB) y) :=
  toeplitzOK_self_adjoint E 1 tB tB_ok x y hx hy

/-! non-vacuity of the closed adjoint theorem WITHOUT any assumption on the environment: `Index ∘ Toeplitz` -/

open Examples in
/-- a Toeplitz leaf on the input structure of the index operator `idxP` (one leaf of shape `[3]`), two bands -/
def tQ : Params := { inS := idxP.inS, outS := idxP.inS, vals := ⟨[2], [2, 1]⟩, str := "fft", ints := [[-1]] }

theorem tQ_ok : toeplitzOK tQ := by
  refine toeplitzOK_of_unbatched ⟨⟨2, by decide, rfl, rfl⟩, ?_⟩
  intro l hl
  simp only [tQ, Examples.idxP, List.mem_singleton] at hl
  subst hl
  simp

theorem tQ_ctor : toeplitzCtor tQ.str 2 (fftArg tQ) = .ok none := by decide

open Examples in
/-- `IndexOperator ∘ SymmetricBandToeplitzOperator`, from vectors of length 3 to vectors of length 2 -/
def exT : Op := .comp 1 [.leaf 4 .index idxP, .leaf 6 .toeplitz tQ]

open Examples in
/-- its transpose as `transposeOp` computes it: the Toeplitz leaf returns itself -/
def exTT : Op := .comp 0 [.leaf 6 .toeplitz tQ, .wrap 0 .transpose (.leaf 4 .index idxP)]

theorem exT_validT : ValidT exT := by
  have hi : adjLeafOK .index Examples.idxP := ⟨Examples.idxP_ok, by simp⟩
  have ht : adjLeafOK .toeplitz tQ := ⟨listLeafOK_toeplitz tQ_ok, by simp⟩
  refine ⟨?_, by simp [exT, TFormOK, TFormOKList]⟩
  simp only [Valid, exT, WTExpr, WTList, Chain]
  exact ⟨by simp, ⟨hi, ht, trivial⟩, rfl, trivial⟩

theorem exT_wft : exT.WFT := by
  simp [exT, Op.WFT, Op.WFTList, isSymmetricLeaf, tQ]

theorem exT_T : transposeOp exT = .ok exTT := by
  simp [exT, exTT, transposeOp, transposeList, isSymmetricLeaf]

theorem exT_env (E : Env) : EnvAdjOn E exT ∧ EnvSymOn E exT := by
  simp only [EnvAdjOn, EnvSymOn, exT, AllLeaves, AllLeavesList, isEnvLeaf, Bool.false_eq_true, false_imp_iff,
    true_and, and_true]
  have hK : toepK tQ.vals ≠ none := by decide
  exact ⟨fun _ => toeplitz_leaf_adjoint E 6 tQ hK, by simp, fun _ hn => absurd hn hK⟩

/-- **the closed C03 on an expression with a Toeplitz leaf, for EVERY environment, no hypothesis left**:
`⟨(Index ∘ Toeplitz) x, y⟩ = ⟨x, (Toeplitz ∘ Indexᵀ) y⟩` -/
theorem exT_adjoint (E : Env) (x y : V) (hx : x.length = 3) (hy : y.length = 2) :
    dot (den E exT x) y = dot x (den E exTT y) :=
  transpose_is_adjoint_closed_on E exT exTT (exT_env E).1 (exT_env E).2 exT_validT exT_wft exT_T x y hx hy

end ToeplitzExample


end ListSem
end Furax
