/-
C09, closed, in the list denotation (FuraxProofs/Sem/ListSem.lean): a `SymmetricBandToeplitzOperator` leaf with an
un-batched band is interpreted by the banded product `Toeplitz.toep`, whatever its method string and FFT size, and
each of the model's four evaluation functions (`applyDense`, `applyDirect`, `applyFft`, `applyOverlapSave F`,
FuraxModel/Toeplitz.lean) computes that same vector, row by row — including `K > l`.

The encoder stores `p.vals` = the band values (shape `[K]`), `p.str` = the method, `p.ints = [[fft_size or -1]]`.

1.  `leafDen_toeplitz`, `leafDenT_toeplitz`, `denT_toeplitz_eq_den`: the denotation of a leaf with `toepK = some K`;
    `den_toeplitz_method_irrelevant`: it depends neither on `p.str` nor on `p.ints`.
2.  `perLeaf_getD_at`: the entries of a leaf-wise map, leaf by leaf;
    `den_toeplitz_entry`: **the denotation is the banded product**: for the leaf `li` of shape `s ++ [l]` at offset
    `off` of the structure, row `b < prod s`, position `i < l`:
    `(den x)[off + b*l + i] = toep (K−1) l band (j ↦ x[off + b*l + j]) i`.
3.  `den_toeplitz_methods`: the same entry is what `applyDense`, `applyDirect`, `applyFft` and `applyOverlapSave F`
    (every `F ≥ 2K − 1`) compute on that row (Props/C09.lean).
4.  `evalMethod`, `ctor_evalMethod`, `den_toeplitz_ctor`: for every configuration `(method, fft_size)` the constructor
    accepts (`toeplitzCtor`), the evaluation function `mv` dispatches to computes the denotation.
5.  `toeplitz_den_self_adjoint`: `⟨T x, y⟩ = ⟨x, T y⟩`, no assumption on the environment.
6.  a concrete leaf (two rows of length 3, `K = 4 > l`).
-/
import FuraxProofs.Sem.AdjointList
import FuraxProofs.Props.C09
namespace Furax
namespace ListSem
open Op Toeplitz

/-! ### 1. the denotation of a Toeplitz leaf with an un-batched band -/

theorem leafDen_toeplitz (E : Env) (u : Nat) (p : Params) (K : Nat) (hK : toepK p.vals = some K) (x : V) :
    leafDen E u .toeplitz p x =
      fit p.inS.size (perLeaf (toepLeaf K p.vals) p.inS.leaves p.inS.leaves (fit p.inS.size x)) := by
  simp only [leafDen, squareLeaf, if_true, hK]

theorem leafDenT_toeplitz (E : Env) (u : Nat) (p : Params) (K : Nat) (hK : toepK p.vals = some K) (y : V) :
    leafDenT E u .toeplitz p y =
      fit p.inS.size (perLeaf (toepLeaf K p.vals) p.inS.leaves p.inS.leaves (fit p.inS.size y)) := by
  simp only [leafDenT, squareLeaf, if_true, hK]

/-- the operator is `@symmetric`: `op.T.mv` is `op.mv`, on EVERY input -/
theorem denT_toeplitz_eq_den (E : Env) (u : Nat) (p : Params) (hK : toepK p.vals ≠ none) :
    denT E (.leaf u .toeplitz p) = den E (.leaf u .toeplitz p) := by
  obtain ⟨K, hK⟩ := Option.ne_none_iff_exists'.mp hK
  funext y
  rw [den, denT, leafDen_toeplitz E u p K hK, leafDenT_toeplitz E u p K hK]

/-- **the denotation depends neither on the method nor on the FFT size** -/
theorem den_toeplitz_method_irrelevant (E : Env) (u : Nat) (p : Params) (hK : toepK p.vals ≠ none)
    (method : String) (ints : List (List Int)) :
    den E (.leaf u .toeplitz { p with str := method, ints := ints }) = den E (.leaf u .toeplitz p) := by
  obtain ⟨K, hK⟩ := Option.ne_none_iff_exists'.mp hK
  funext x
  have h := leafDen_toeplitz E u { p with str := method, ints := ints } K hK x
  rw [den, den, leafDen_toeplitz E u p K hK]
  exact h

/-! ### 2. entries -/

theorem fit_getD (n : Nat) (x : V) (i : Nat) (h : i < n) : (fit n x).getD i 0 = x.getD i 0 := by
  induction n generalizing x i with
  | zero => omega
  | succ n ih =>
    cases x with
    | nil =>
      rw [fit_nil, List.getD_eq_getElem _ _ (by simpa using h)]
      simp
    | cons a x =>
      rw [fit_succ_cons]
      cases i with
      | zero => rfl
      | succ i => simp only [List.getD_cons_succ]; exact ih x i (by omega)

theorem drop_getD (n : Nat) (x : V) (i : Nat) : (x.drop n).getD i 0 = x.getD (n + i) 0 := by
  simp only [List.getD_eq_getElem?_getD, List.getElem?_drop]

theorem headChunk_getD (n : Nat) (x : V) (i : Nat) (h : i < n) : (headChunk n x).getD i 0 = x.getD i 0 := by
  rw [headChunk_eq_fit, fit_getD n x i h]

/-- the entries of a leaf-wise map on the leaf `li` that sits after the leaves `pre` -/
theorem perLeaf_getD_at (f : LeafS → LeafS → V → V) (pre : List LeafS) (li : LeafS) (post : List LeafS) (x : V)
    (q : Nat) (hq : q < li.size) :
    (perLeaf f (pre ++ li :: post) (pre ++ li :: post) x).getD ((pre.map LeafS.size).sum + q) 0 =
      (f li li (headChunk li.size (x.drop (pre.map LeafS.size).sum))).getD q 0 := by
  induction pre generalizing x with
  | nil =>
    simp only [List.nil_append, List.map_nil, List.sum_nil, Nat.zero_add, List.drop_zero]
    rw [perLeaf_cons, List.getD_append _ _ _ _ (by rw [fit_length]; exact hq), fit_getD _ _ _ hq]
  | cons a pre ih =>
    simp only [List.cons_append, List.map_cons, List.sum_cons]
    rw [perLeaf_cons, List.getD_append_right _ _ _ _ (by rw [fit_length]; omega), fit_length]
    have e : a.size + (pre.map LeafS.size).sum + q - a.size = (pre.map LeafS.size).sum + q := by omega
    rw [e, ih (x.drop a.size), List.drop_drop]

/-- the structure size bounds the offsets of its leaves -/
theorem struct_size_split (s : Struct) (pre : List LeafS) (li : LeafS) (post : List LeafS)
    (h : s.leaves = pre ++ li :: post) :
    s.size = (pre.map LeafS.size).sum + li.size + (post.map LeafS.size).sum := by
  unfold Struct.size
  rw [h]
  simp [Nat.add_assoc]

/-- **C09, closed: the denotation of a Toeplitz leaf is the banded product**, leaf by leaf and row by row along the
last axis.  For the leaf `li` of shape `s ++ [l]` sitting at offset `off = Σ sizes of the preceding leaves`, row
`b < prod s` and position `i < l`, the output at the flat position `off + b*l + i` is
`toep (K−1) l band (row b of that leaf of the input) i = Σ_j [|i−j| < K] band|i−j| · x[off + b*l + j]`;
for EVERY input list `x`, every `K` (also `K > l`), every method string and FFT size. -/
theorem den_toeplitz_entry (E : Env) (u : Nat) (p : Params) (K : Nat) (hK : toepK p.vals = some K) (x : V)
    (pre : List LeafS) (li : LeafS) (post : List LeafS) (hleaves : p.inS.leaves = pre ++ li :: post)
    (s : List Nat) (l : Nat) (hshape : li.shape = s ++ [l]) (b i : Nat) (hb : b < prodNat s) (hi : i < l) :
    (den E (.leaf u .toeplitz p) x).getD ((pre.map LeafS.size).sum + b * l + i) 0 =
      toep (K - 1) l (toepBand p.vals) (fun j => x.getD ((pre.map LeafS.size).sum + b * l + j) 0) i := by
  have hl : li.shape.getLastD 1 = l := by rw [hshape, List.getLastD_concat]
  have hsz : li.size = prodNat s * l := by
    have := leaf_size_eq li (by rw [hshape]; simp)
    rw [hl, hshape, List.dropLast_concat] at this
    exact this
  have hrow : ∀ j, j < l → b * l + j < li.size := by
    intro j hj
    rw [hsz]
    calc b * l + j < b * l + l := by omega
      _ = (b + 1) * l := (Nat.succ_mul b l).symm
      _ ≤ prodNat s * l := Nat.mul_le_mul_right l hb
  have hN := struct_size_split p.inS pre li post hleaves
  rw [den, leafDen_toeplitz E u p K hK, Nat.add_assoc,
    fit_getD _ _ _ (by have := hrow i hi; omega), hleaves,
    perLeaf_getD_at _ pre li post _ (b * l + i) (hrow i hi)]
  have := toepLeaf_getD_row K p.vals li li
    (headChunk li.size ((fit p.inS.size x).drop (pre.map LeafS.size).sum)) b i (by rw [hl]; exact hi)
    (by rw [hl]; exact hrow i hi)
  rw [hl] at this
  rw [this]
  apply toep_congr
  intro j hj
  unfold rowOf
  rw [headChunk_getD _ _ _ (hrow j hj), drop_getD, fit_getD _ _ _ (by have := hrow j hj; omega), Nat.add_assoc]

/-! ### 3. the four evaluation methods compute the denotation -/

/-- **C09, closed: all four evaluation methods compute the denotation**, row by row: on the row `b` of the leaf `li`
(shape `s ++ [l]`, offset `off`), `_apply_dense`, `_apply_direct`, `_apply_fft` and `_apply_overlap_save` with any
admissible FFT size `F ≥ 2K − 1` return, at position `i < l`, the entry `off + b*l + i` of `den E leaf x` — for every
`K ≥ 1`, including `K > l` -/
theorem den_toeplitz_methods (E : Env) (u : Nat) (p : Params) (K : Nat) (hK1 : 1 ≤ K)
    (hK : toepK p.vals = some K) (x : V)
    (pre : List LeafS) (li : LeafS) (post : List LeafS) (hleaves : p.inS.leaves = pre ++ li :: post)
    (s : List Nat) (l : Nat) (hshape : li.shape = s ++ [l]) (b i : Nat) (hb : b < prodNat s) (hi : i < l) :
    let row : Nat → ℝ := fun j => x.getD ((pre.map LeafS.size).sum + b * l + j) 0
    let out : ℝ := (den E (.leaf u .toeplitz p) x).getD ((pre.map LeafS.size).sum + b * l + i) 0
    applyDense (K - 1) l (toepBand p.vals) row i = out ∧
    applyDirect (K - 1) l (toepBand p.vals) row i = out ∧
    applyFft (K - 1) l (toepBand p.vals) row i = out ∧
    ∀ F, 2 * K - 1 ≤ F → applyOverlapSave F (K - 1) l (toepBand p.vals) row i = out := by
  intro row out
  have hout : out = toep (K - 1) l (toepBand p.vals) row i :=
    den_toeplitz_entry E u p K hK x pre li post hleaves s l hshape b i hb hi
  rw [hout]
  refine ⟨C09.dense_correct _ _ _ _ i hi, C09.direct_correct _ _ _ _ i hi, C09.fft_correct _ _ _ _ i hi, ?_⟩
  intro F hF
  exact C09.overlapSave_correct F _ _ _ _ (by omega) i hi

/-! ### 4. every configuration the constructor accepts -/

/-- the evaluation function `SymmetricBandToeplitzOperator.mv` dispatches to, by method (the dispatch of the
compiled driver, FuraxModel/Driver.lean `handleToeplitz`); `F` is only read by `overlap_save` -/
noncomputable def evalMethod (method : String) (F h l : Nat) (band x : Nat → ℝ) : Option (Nat → ℝ) :=
  if method = "dense" then some (applyDense h l band x)
  else if method = "direct" then some (applyDirect h l band x)
  else if method = "fft" then some (applyFft h l band x)
  else if method = "overlap_save" then some (applyOverlapSave F h l band x)
  else none

/-- the `fft_size` argument as the encoder stores it: `p.ints = [[f]]`, a negative `f` (`-1`) standing for `None` -/
def fftArg (p : Params) : Option Nat :=
  match p.ints with
  | [[f]] => if f < 0 then none else some f.toNat
  | _ => none

/-- **whatever the constructor accepts computes the banded product**: if `toeplitzCtor method K fft` returns
`.ok r` (`r` = the FFT size the operator keeps, `none` for the methods that have none), the evaluation function of
`method` exists and returns `toep (K−1) l band x` on `[0, l)` -/
theorem ctor_evalMethod (method : String) (K : Nat) (hK1 : 1 ≤ K) (fft r : Option Nat)
    (hc : toeplitzCtor method K fft = .ok r) (l : Nat) (band x : Nat → ℝ) :
    ∃ y, evalMethod method (r.getD 0) (K - 1) l band x = some y ∧
      ∀ i, i < l → y i = toep (K - 1) l band x i := by
  by_cases h1 : method = "dense"
  · subst h1
    exact ⟨_, by simp [evalMethod], fun i hi => C09.dense_correct _ _ _ _ i hi⟩
  by_cases h2 : method = "direct"
  · subst h2
    exact ⟨_, by simp [evalMethod], fun i hi => C09.direct_correct _ _ _ _ i hi⟩
  by_cases h3 : method = "fft"
  · subst h3
    exact ⟨_, by simp [evalMethod], fun i hi => C09.fft_correct _ _ _ _ i hi⟩
  by_cases h4 : method = "overlap_save"
  · subst h4
    obtain ⟨F, rfl⟩ : ∃ F, r = some F := by
      unfold toeplitzCtor at hc
      have hm : (["dense", "direct", "fft", "overlap_save"].contains "overlap_save") = true := by decide
      have ho : ("overlap_save" == "overlap_save") = true := by decide
      simp only [hm, ho, Bool.not_true, Bool.false_eq_true, if_false, if_true] at hc
      cases fft with
      | some g =>
        simp only at hc
        split at hc
        · simp at hc
        · simp only [ToeplitzCtor.ok.injEq] at hc; exact ⟨g, hc.symm⟩
      | none => simp only [ToeplitzCtor.ok.injEq] at hc; exact ⟨_, hc.symm⟩
    have hF := C09.ctor_fft_admissible K F fft hc
    refine ⟨applyOverlapSave F (K - 1) l band x, by simp [evalMethod], fun i hi => ?_⟩
    exact C09.overlapSave_correct F _ _ _ _ (by omega) i hi
  · exfalso
    unfold toeplitzCtor at hc
    simp [h1, h2, h3, h4] at hc

/-- **C09, closed, for the leaf's own configuration**: when the method `p.str` and FFT size `p.ints` of a
`toeplitzOK` leaf are a configuration the constructor accepts, the evaluation function `mv` dispatches to returns,
on every row of every leaf, the entries of the denotation -/
theorem den_toeplitz_ctor (E : Env) (u : Nat) (p : Params) (K : Nat) (hK1 : 1 ≤ K)
    (hK : toepK p.vals = some K) (r : Option Nat) (hc : toeplitzCtor p.str K (fftArg p) = .ok r) (x : V)
    (pre : List LeafS) (li : LeafS) (post : List LeafS) (hleaves : p.inS.leaves = pre ++ li :: post)
    (s : List Nat) (l : Nat) (hshape : li.shape = s ++ [l]) (b : Nat) (hb : b < prodNat s) :
    ∃ y, evalMethod p.str (r.getD 0) (K - 1) l (toepBand p.vals)
        (fun j => x.getD ((pre.map LeafS.size).sum + b * l + j) 0) = some y ∧
      ∀ i, i < l → y i = (den E (.leaf u .toeplitz p) x).getD ((pre.map LeafS.size).sum + b * l + i) 0 := by
  obtain ⟨y, hy, hyi⟩ := ctor_evalMethod p.str K hK1 (fftArg p) r hc l (toepBand p.vals)
    (fun j => x.getD ((pre.map LeafS.size).sum + b * l + j) 0)
  refine ⟨y, hy, fun i hi => ?_⟩
  rw [hyi i hi, den_toeplitz_entry E u p K hK x pre li post hleaves s l hshape b i hb hi]

/-- the statements above apply to every `toeplitzOK` leaf: its band has `K ≥ 1` values, `band k = p.vals.data[k]`
for `k < K`, and every leaf has a last axis -/
theorem toeplitzOK_facts (p : Params) (h : toeplitzOK p) :
    ∃ K, 1 ≤ K ∧ toepK p.vals = some K ∧ p.vals.data.length = K ∧
      (∀ k (hk : k < p.vals.data.length), toepBand p.vals k = ((p.vals.data[k] : Rat) : ℝ)) ∧
      ∀ li ∈ p.inS.leaves, ∃ s l, li.shape = s ++ [l] := by
  obtain ⟨⟨K, hK1, hs, hd⟩, hr⟩ := h
  refine ⟨K, hK1, by simp [toepK, hs], hd, fun k hk => ?_, fun li hli => ?_⟩
  · unfold toepBand
    rw [List.getD_eq_getElem _ _ hk]
  · exact ⟨_, _, (List.dropLast_append_getLast (hr li hli)).symm⟩

/-! ### 5. self-adjointness, without any assumption on the environment -/

/-- **a Toeplitz leaf with an un-batched band is self-adjoint in the list denotation**: `⟨T x, y⟩ = ⟨x, T y⟩` for
all `x`, `y` of the size of the structure — and `T.T` is `T` (`denT_toeplitz_eq_den`) -/
theorem toeplitz_den_self_adjoint (E : Env) (u : Nat) (p : Params) (hK : toepK p.vals ≠ none) (x y : V)
    (hx : x.length = p.inS.size) (hy : y.length = p.inS.size) :
    dot (den E (.leaf u .toeplitz p) x) y = dot x (den E (.leaf u .toeplitz p) y) := by
  have := toeplitz_leaf_adjoint E u p hK x y hx (by simpa [Op.outS, squareLeaf] using hy)
  rw [den]
  rw [this]
  have h2 := congrFun (denT_toeplitz_eq_den E u p hK) y
  rw [den, denT] at h2
  rw [h2]

/-- the same from the validity of the leaf -/
theorem toeplitzOK_self_adjoint (E : Env) (u : Nat) (p : Params) (h : toeplitzOK p) (x y : V)
    (hx : x.length = p.inS.size) (hy : y.length = p.inS.size) :
    dot (den E (.leaf u .toeplitz p) x) y = dot x (den E (.leaf u .toeplitz p) y) := by
  obtain ⟨K, _, hK⟩ := h.toepK
  exact toeplitz_den_self_adjoint E u p (by rw [hK]; simp) x y hx hy

/-- an expression made of a valid Toeplitz leaf only needs NO assumption on the environment for the closed
adjointness theorem -/
theorem toeplitz_envAdjOn (E : Env) (u : Nat) (p : Params) (hK : toepK p.vals ≠ none) :
    EnvAdjOn E (.leaf u .toeplitz p) ∧ EnvSymOn E (.leaf u .toeplitz p) := by
  constructor
  · simp only [EnvAdjOn, AllLeaves]
    exact fun _ => toeplitz_leaf_adjoint E u p hK
  · simp only [EnvSymOn, AllLeaves]
    exact fun _ hn => absurd hn hK

/-! ### 6. a concrete leaf: two rows of length 3, four bands (`K = 4 > l = 3`) -/

namespace ToeplitzExample

def sT : Struct := ⟨[.leaf], [⟨[2, 3], .f64⟩]⟩
def tP : Params := { inS := sT, outS := sT, vals := ⟨[4], [4, 1, 2, 7]⟩, str := "overlap_save", ints := [[8]] }

theorem tP_ok : toeplitzOK tP := by
  refine ⟨⟨4, by decide, rfl, rfl⟩, ?_⟩
  intro l hl
  simp only [tP, sT, List.mem_singleton] at hl
  subst hl
  simp

theorem tP_ctor : toeplitzCtor tP.str 4 (fftArg tP) = .ok (some 8) := by decide

/-- entry `(1, 0)` of the output on `x = [x₀ … x₅]`: `4·x₃ + 1·x₄ + 2·x₅` (the fourth band, `7`, is out of reach) -/
example (E : Env) (x0 x1 x2 x3 x4 x5 : ℝ) :
    (den E (.leaf 1 .toeplitz tP) [x0, x1, x2, x3, x4, x5]).getD 3 0 = 4 * x3 + 1 * x4 + 2 * x5 := by
  have h := den_toeplitz_entry E 1 tP 4 rfl [x0, x1, x2, x3, x4, x5] [] ⟨[2, 3], .f64⟩ [] rfl [2] 3 rfl 1 0
    (by decide) (by decide)
  simp only [List.map_nil, List.sum_nil, Nat.zero_add, Nat.one_mul, Nat.add_zero] at h
  rw [h]
  simp [toep, sumRange, Toeplitz.dist, toepBand, tP, List.range_succ]

/-! non-vacuity of the closed adjoint theorem WITHOUT any assumption on the environment: `Index ∘ Toeplitz` -/

open Examples in
/-- a Toeplitz leaf on the input structure of the index operator `idxP` (one leaf of shape `[3]`), two bands -/
def tQ : Params := { inS := idxP.inS, outS := idxP.inS, vals := ⟨[2], [2, 1]⟩, str := "fft", ints := [[-1]] }

theorem tQ_ok : toeplitzOK tQ := by
  refine ⟨⟨2, by decide, rfl, rfl⟩, ?_⟩
  intro l hl
  simp only [tQ, Examples.idxP, List.mem_singleton] at hl
  subst hl
  simp

theorem tQ_ctor : toeplitzCtor tQ.str 2 (fftArg tQ) = .ok none := by decide

open Examples in
/-- `IndexOperator ∘ SymmetricBandToeplitzOperator`, from vectors of length 3 to vectors of length 2 -/
def exT : Op := .comp 1 [.leaf 4 .index idxP, .leaf 6 .toeplitz tQ]

open Examples in
/-- its transpose as `transposeOp` computes it: the Toeplitz leaf returns itself -/
def exTT : Op := .comp 0 [.leaf 6 .toeplitz tQ, .wrap 0 .transpose (.leaf 4 .index idxP)]

theorem exT_validT : ValidT exT := by
  have hi : adjLeafOK .index Examples.idxP := ⟨Examples.idxP_ok, by simp⟩
  have ht : adjLeafOK .toeplitz tQ := ⟨listLeafOK_toeplitz tQ_ok, by simp⟩
  refine ⟨?_, by simp [exT, TFormOK, TFormOKList]⟩
  simp only [Valid, exT, WTExpr, WTList, Chain]
  exact ⟨by simp, ⟨hi, ht, trivial⟩, rfl, trivial⟩

theorem exT_wft : exT.WFT := by
  simp [exT, Op.WFT, Op.WFTList, isSymmetricLeaf, tQ]

theorem exT_T : transposeOp exT = .ok exTT := by
  simp [exT, exTT, transposeOp, transposeList, isSymmetricLeaf]

theorem exT_env (E : Env) : EnvAdjOn E exT ∧ EnvSymOn E exT := by
  simp only [EnvAdjOn, EnvSymOn, exT, AllLeaves, AllLeavesList, isEnvLeaf, Bool.false_eq_true, false_imp_iff,
    true_and, and_true]
  have hK : toepK tQ.vals ≠ none := by decide
  exact ⟨fun _ => toeplitz_leaf_adjoint E 6 tQ hK, by simp, fun _ hn => absurd hn hK⟩

/-- **the closed C03 on an expression with a Toeplitz leaf, for EVERY environment, no hypothesis left**:
`⟨(Index ∘ Toeplitz) x, y⟩ = ⟨x, (Toeplitz ∘ Indexᵀ) y⟩` -/
theorem exT_adjoint (E : Env) (x y : V) (hx : x.length = 3) (hy : y.length = 2) :
    dot (den E exT x) y = dot x (den E exTT y) :=
  transpose_is_adjoint_closed_on E exT exTT (exT_env E).1 (exT_env E).2 exT_validT exT_wft exT_T x y hx hy

end ToeplitzExample


end ListSem
end Furax
