/-
The executable validity check (FuraxModel/Valid.lean) DECIDES the hypotheses of the closed theorems.

* `leafOKb_iff c p : leafOKb c p = true ↔ listLeafOK c p` — one lemma per leaf class (`toeplitz_iff`, `moveAxis_iff`,
  `reshape_iff`, `index_iff`, `pack_iff`, `stokes_iff`, `diagonal_iff`, `dense_iff`): soundness AND completeness, every
  clause of `listLeafOK` is decidable from the encoded data (for the dense einsum leaves with a shared block array:
  `ListSem.denseCheck_iff`, FuraxProofs/Sem/DenseLeaf.lean — the witnesses of `LeafFits` are determined by the shapes);
* `validWith_iff` — for every decidable leaf validity: `WTExpr inv leafOK o ↔ validWith leafb o = true ∧ ∀ a ∈
  lazyOperands o, inv a`; the only part of `WTExpr` that is not decided is the invertibility of the operands of the
  lazy inverses, kept as an explicit hypothesis;
* `validb_sound`, `validb_complete`, `validb_iff` — the instance `leafOK := listLeafOK`;
* `validTb_iff : validTb o = true ↔ ValidT o ∧ o.WFT` — the hypotheses of `transpose_is_adjoint_closed` (no
  invertibility there: fully decided);
* `invalidReason_none_iff` — the diagnostic is `none` exactly when the check passes.
-/
import FuraxModel.Valid
import FuraxProofs.Sem.ListModel
import FuraxProofs.Sem.AdjointList
import FuraxProofs.Sem.InverseList
namespace Furax
namespace Valid
open Op ListSem

/-! ### generic helpers -/

theorem allb_nil : allb [] = true := rfl

theorem allb_cons (t : String) (b : Bool) (cs : List Clause) : allb ((t, b) :: cs) = (b && allb cs) := by
  simp [allb]

theorem allb_append (a b : List Clause) : allb (a ++ b) = (allb a && allb b) := by
  simp [allb]

theorem firstFail_none_iff (cs : List Clause) : firstFail cs = none ↔ allb cs = true := by
  induction cs with
  | nil => simp [firstFail, allb]
  | cons c cs ih =>
    obtain ⟨t, b⟩ := c
    cases b <;> simp [firstFail, allb_cons, ih]

theorem forall2b_iff {α β : Type} (r : α → β → Bool) (R : α → β → Prop) (h : ∀ a b, r a b = true ↔ R a b) :
    ∀ (as : List α) (bs : List β), forall2b r as bs = true ↔ List.Forall₂ R as bs
  | [], [] => by simp [forall2b]
  | [], _ :: _ => by simp [forall2b]
  | _ :: _, [] => by simp [forall2b]
  | a :: as, b :: bs => by
    simp only [forall2b, Bool.and_eq_true, List.forall₂_cons, h, forall2b_iff r R h as bs]

theorem bcb_iff (s S : List Nat) : bcb s S = true ↔ Bc s S := by
  simp only [bcb, Bc, Bool.and_eq_true, decide_eq_true_eq, List.all_eq_true, List.mem_range, Bool.or_eq_true,
    beq_iff_eq]

theorem nodupb_iff : ∀ l : List Nat, nodupb l = true ↔ l.Nodup
  | [] => by simp [nodupb]
  | a :: as => by
    simp only [nodupb, Bool.and_eq_true, Bool.not_eq_true', List.nodup_cons, nodupb_iff as]
    simp

theorem nodupb_false_iff (l : List Nat) : nodupb l = false ↔ ¬ l.Nodup := by
  rw [← nodupb_iff, Bool.not_eq_true]

/-- `c != k || b`, the Boolean form of `c = k → b` -/
theorem ne_or_iff {α : Type} [DecidableEq α] (c k : α) (b : Bool) : ((c != k) || b) = true ↔ (c = k → b = true) := by
  by_cases h : c = k <;> simp [h]

/-! ### Toeplitz -/

theorem toeplitzLeafb_iff (bs : List Nat) (l : LeafS) :
    toeplitzLeafb bs l = true ↔ l.shape ≠ [] ∧ Bc bs l.shape.dropLast := by
  simp [toeplitzLeafb, bcb_iff]

theorem toeplitz_iff (p : Params) : allb (toeplitzClauses p) = true ↔ listLeafOK .toeplitz p := by
  unfold toeplitzClauses
  simp only [listLeafOK, toepK]
  cases hK : p.vals.shape.getLast? with
  | none => simp [allb]
  | some K =>
    have hsh : p.vals.shape = p.vals.shape.dropLast ++ [K] :=
      (List.dropLast_append_getLast? K (by simp [hK])).symm
    simp only [allb_cons, allb_nil, Bool.and_true, Bool.and_eq_true, decide_eq_true_eq, beq_iff_eq,
      List.all_eq_true, toeplitzLeafb_iff, ne_eq, reduceCtorEq, not_false_eq_true, forall_const, bne_iff_ne]
    constructor
    · rintro ⟨h1, h2, _, h4⟩
      exact ⟨_, K, h1, hsh, h2, h4⟩
    · rintro ⟨bs, K', h1, h2, h3, h4⟩
      have he : p.vals.shape.dropLast ++ [K] = bs ++ [K'] := hsh ▸ h2
      obtain ⟨hb, hk⟩ := List.append_inj' he rfl
      have hk' : K = K' := by simpa using hk
      subst hk'
      rw [hb]
      exact ⟨h1, h3, fun l hl => (h4 l hl).1, h4⟩

/-! ### move-axis, ravel, reshape -/

theorem moveAxisLeafb_iff (src dst : List Int) (li lo : LeafS) :
    moveAxisLeafb src dst li lo = true ↔ ∃ order, Axes.moveaxisOrder li.shape.length src dst = .ok order ∧
      lo.shape = Axes.transposeShape li.shape order ∧ lo.dtype = li.dtype := by
  unfold moveAxisLeafb
  cases h : Axes.moveaxisOrder li.shape.length src dst with
  | error e => simp
  | ok order => simp

theorem moveAxis_iff (p : Params) : allb (moveAxisClauses p) = true ↔ listLeafOK .moveAxis p := by
  simp only [moveAxisClauses, allb_cons, allb_nil, Bool.and_true, Bool.and_eq_true, beq_iff_eq, listLeafOK,
    moveAxisOK, forall2b_iff _ _ (moveAxisLeafb_iff _ _)]

theorem reshape_iff (p : Params) : allb (reshapeClauses p) = true ↔ reshapeOK p := by
  simp only [reshapeClauses, allb_cons, allb_nil, Bool.and_true, Bool.and_eq_true, beq_iff_eq, reshapeOK,
    forall2b_iff _ (fun li lo : LeafS => lo.size = li.size) (fun _ _ => beq_iff_eq)]

/-! ### index, pack -/

theorem indexLeafb_iff (idx : List IdxEntry) (uniq : Bool) (P : Prop) (hP : P ↔ uniq = true) (li lo : LeafS) :
    indexLeafb idx uniq li lo = true ↔ indexLeafOK idx P li lo := by
  unfold indexLeafb indexLeafReason indexLeafOK
  cases h : Index.indexPositions li.shape idx with
  | error e => simp
  | ok r =>
    obtain ⟨sh, pos⟩ := r
    simp only [Except.ok.injEq, Prod.mk.injEq, hP]
    have e : (if (sh != lo.shape) = true then some "out-shape"
        else if (!pos.all (fun q => decide (q < li.size))) = true then some "position-out-of-bounds"
        else if (uniq && !nodupb pos) = true then some "unique-indices-promise-broken"
        else if (lo.dtype != li.dtype) = true then some "out-dtype"
        else none).isNone = true ↔
        sh = lo.shape ∧ (∀ q ∈ pos, q < li.size) ∧ (uniq = true → pos.Nodup) ∧ lo.dtype = li.dtype := by
      split_ifs with a b c d <;> simp_all [nodupb_false_iff]
    rw [e]
    constructor
    · rintro ⟨h1, h2, h3, h4⟩
      exact ⟨pos, ⟨h1, rfl⟩, h2, h3, h4⟩
    · rintro ⟨pos', ⟨h1, rfl⟩, h2, h3, h4⟩
      exact ⟨h1, h2, h3, h4⟩

theorem idxWellFormedb_iff (idx : List IdxEntry) :
    idxWellFormedb idx = true ↔ ∀ sh vals, IdxEntry.iarr sh vals ∈ idx → vals.length = prodNat sh := by
  unfold idxWellFormedb
  rw [List.all_eq_true]
  constructor
  · intro h sh vals hm
    simpa using h _ hm
  · intro h e he
    cases e with
    | iarr sh vals => simpa using h sh vals he
    | _ => rfl

theorem idxInBoundsb_iff (idx : List IdxEntry) (leaves : List LeafS) :
    idxInBoundsb idx leaves = true ↔
      ∀ axis ∈ indexedAxes idx, ∀ sh vals, pyGet? idx axis = some (.iarr sh vals) →
        ∀ l ∈ leaves, ∀ n, pyGet? l.shape axis = some n → ∀ i ∈ vals, -(n : Int) ≤ i ∧ i < n := by
  unfold idxInBoundsb
  rw [List.all_eq_true]
  refine forall_congr' fun axis => forall_congr' fun _ => ?_
  cases hg : pyGet? idx axis with
  | none => simp
  | some e =>
    cases e with
    | iarr sh vals =>
      simp only [Option.some.injEq, IdxEntry.iarr.injEq, List.all_eq_true]
      constructor
      · rintro h sh' vals' ⟨rfl, rfl⟩ l hl n hn i hi
        have := h l hl
        rw [hn] at this
        simpa using (List.all_eq_true.mp this) i hi
      · intro h l hl
        cases hn : pyGet? l.shape axis with
        | none => rfl
        | some n =>
          simp only [List.all_eq_true, Bool.and_eq_true, decide_eq_true_eq]
          exact fun i hi => h sh vals ⟨rfl, rfl⟩ l hl n hn i hi
    | _ => simp

theorem index_iff (p : Params) : allb (indexClauses p) = true ↔ listLeafOK .index p := by
  simp only [indexClauses, allb_cons, allb_nil, Bool.and_true, Bool.and_eq_true, beq_iff_eq, listLeafOK, indexOK,
    indexArraysOK, idxWellFormedb_iff, idxInBoundsb_iff,
    forall2b_iff _ _ (indexLeafb_iff p.idx p.flag (p.flag = true) Iff.rfl)]
  constructor
  · rintro ⟨h1, _, h3, h4, h5⟩
    exact ⟨⟨h1, h3⟩, h4, h5⟩
  · rintro ⟨⟨h1, h3⟩, h4, h5⟩
    exact ⟨h1, h3.length_eq, h3, h4, h5⟩

theorem pack_iff (p : Params) : allb (packClauses p) = true ↔ listLeafOK .pack p := by
  simp only [packClauses, allb_cons, allb_nil, Bool.and_true, Bool.and_eq_true, beq_iff_eq, listLeafOK, packOK,
    forall2b_iff _ _ (indexLeafb_iff p.idx true True (by simp))]
  constructor
  · rintro ⟨h1, _, h3⟩
    exact ⟨h1, h3⟩
  · rintro ⟨h1, h3⟩
    exact ⟨h1, h3.length_eq, h3⟩

/-! ### polarimetry -/

theorem kindOf_isSome_iff (n : Nat) : (∃ k, kindOf n = some k) ↔ 1 ≤ n ∧ n ≤ 4 := by
  match n with
  | 0 => simp [kindOf]
  | 1 => simp [kindOf]
  | 2 => simp [kindOf]
  | 3 => simp [kindOf]
  | 4 => simp [kindOf]
  | n + 5 => simp [kindOf]

theorem leafShape_eq (p : Params) : Valid.leafShape p = ListSem.leafShape p := rfl

theorem stokes_iff (c : LeafCls) (p : Params) : allb (stokesClauses c p) = true ↔ stokesOK c p := by
  simp only [stokesClauses, allb_cons, allb_nil, Bool.and_true, Bool.and_eq_true, decide_eq_true_eq, beq_iff_eq,
    List.all_eq_true, ne_or_iff, bcb_iff, stokesOK, kindOf_isSome_iff, leafShape_eq]
  constructor
  · rintro ⟨h1, h2, h3, h4, h5⟩
    refine ⟨h1, h2, fun hc => ⟨h3 hc, h4 hc⟩, fun hc => ?_⟩
    have := h5 hc
    split at this
    · rename_i l hl
      exact ⟨l, hl, by simpa using this⟩
    · cases this
  · rintro ⟨h1, h2, h3, h4⟩
    refine ⟨h1, h2, fun hc => (h3 hc).1, fun hc => (h3 hc).2, fun hc => ?_⟩
    obtain ⟨l, hl, hs⟩ := h4 hc
    rw [hl]
    simpa using hs

/-! ### diagonal -/

/-- the shape of a result -/
def shapeOf {α : Type} (r : Except PyErr (Tensor α)) : Except PyErr (List Nat) :=
  match r with
  | .ok y => .ok y.shape
  | .error e => .error e

section diagonal
variable {α : Type} [Inhabited α] [Mul α]

omit [Mul α] in
theorem reshapeDiagonal_shape (values : Tensor α) (axes : List Int) (ndim : Nat) :
    shapeOf (Diagonal.reshapeDiagonal values axes ndim) = reshapeDiagonalShape values.shape axes ndim := by
  unfold shapeOf
  unfold Diagonal.reshapeDiagonal reshapeDiagonalShape Axes.moveaxis
  simp only [bind, Except.bind, pure, Except.pure]
  cases h : Axes.moveaxisOrder (values.shape ++ List.replicate
        ((Diagonal.leftDims axes : Int) + Diagonal.rightDims axes ndim + ndim - values.shape.length).toNat 1).length
      ((List.range axes.length).map fun (k : Nat) => Int.ofNat k)
      (axes.map (· + (Diagonal.leftDims axes : Int))) <;> rfl

/-- **success / failure of `Diagonal.apply` and the shape of its result depend on the shapes only** -/
theorem apply_shape (strict : Bool) (values : Tensor α) (spec : Diagonal.AxisSpec) (x : Tensor α) :
    shapeOf (Diagonal.apply strict values spec x) = applyShape strict values.shape spec x.shape := by
  unfold shapeOf
  unfold Diagonal.apply applyShape
  by_cases h0 : (values.shape.length == 0) = true
  · simp [h0]
  · simp only [h0, if_false, bind, Except.bind, Bool.false_eq_true]
    cases hax : Diagonal.normalizeAxes (Diagonal.normalizeSpec values.shape.length spec) x.shape.length with
    | error e => simp
    | ok axes =>
      simp only
      have hr := reshapeDiagonal_shape values axes x.shape.length
      cases hd : Diagonal.reshapeDiagonal values axes x.shape.length with
      | error e =>
        rw [hd] at hr
        simp only [← hr, shapeOf]
      | ok d =>
        rw [hd] at hr
        simp only [← hr, shapeOf]
        unfold Tensor.zipBroadcast Diagonal.reshapeLeaf
        cases hb : broadcastShapes d.shape (x.shape ++ List.replicate (Diagonal.rightDims axes x.shape.length) 1) with
        | none => simp [bind, Option.bind]
        | some y =>
          simp only [bind, Option.bind]
          by_cases hs : (strict && y != x.shape) = true
          · simp [hs]
          · simp [hs]

end diagonal

theorem diagonalLeafb_iff (p : Params) (l : LeafS) :
    diagonalLeafb p l = true ↔ ∀ c : V, ∃ y,
      Diagonal.apply true (castT p.vals) (.seq (p.ints.getD 0 [])) (⟨l.shape, c⟩ : Tensor ℝ) = .ok y ∧
      y.shape = l.shape := by
  have key : ∀ c : V, shapeOf (Diagonal.apply true (castT p.vals) (.seq (p.ints.getD 0 [])) (⟨l.shape, c⟩ : Tensor ℝ))
      = applyShape true p.vals.shape (.seq (p.ints.getD 0 [])) l.shape :=
    fun c => apply_shape true (castT p.vals) (.seq (p.ints.getD 0 [])) ⟨l.shape, c⟩
  have hstrict : ∀ s, applyShape true p.vals.shape (.seq (p.ints.getD 0 [])) l.shape = .ok s → s = l.shape := by
    intro s hs
    unfold applyShape at hs
    repeat' split at hs
    all_goals simp_all
  unfold diagonalLeafb
  cases ha : applyShape true p.vals.shape (.seq (p.ints.getD 0 [])) l.shape with
  | error e =>
    simp only [Bool.false_eq_true, false_iff, not_forall]
    refine ⟨[], ?_⟩
    rintro ⟨y, hy, _⟩
    have := key []
    rw [hy, ha] at this
    simp [shapeOf] at this
  | ok s =>
    simp only [true_iff]
    intro c
    have := key c
    rw [ha] at this
    cases hy : Diagonal.apply true (castT p.vals) (.seq (p.ints.getD 0 [])) (⟨l.shape, c⟩ : Tensor ℝ) with
    | error e => rw [hy] at this; simp [shapeOf] at this
    | ok y =>
      rw [hy] at this
      simp only [shapeOf, Except.ok.injEq] at this
      exact ⟨y, rfl, this.trans (hstrict s ha)⟩

theorem diagonal_iff (p : Params) : allb (diagonalClauses p) = true ↔ diagonalOK p := by
  simp only [diagonalClauses, allb_cons, allb_nil, Bool.and_true, List.all_eq_true, diagonalLeafb_iff, diagonalOK]

/-! ### dense einsum blocks -/

/-- a dense leaf with a shared block array passes `Einsum.denseCheck` exactly when it is `denseOK`
(`ListSem.denseCheck_iff`: the executable check is sound and complete); one with a block array per leaf is not
constrained -/
theorem dense_iff (p : Params) : allb (denseClauses p) = true ↔ listLeafOK .dense p := by
  simp only [denseClauses, allb_cons, allb_nil, Bool.and_true, Bool.or_eq_true, Bool.not_eq_true', listLeafOK,
    denseSharedb_eq, denseCheck_iff]
  cases denseShared p <;> simp

/-- the dense clause once the split of the subscripts is known: `Einsum.parseSubscripts` (`String.splitOn`) does not
reduce in the Lean kernel, `Einsum.denseCheckTerms` does; `ListSem.parseSubscripts_readback` gives the split -/
theorem leafOKb_dense_eq_terms (p : Params) (l r o : String) (hp : Einsum.parseSubscripts p.str = .ok (l, r, o)) :
    leafOKb .dense p = (!Einsum.denseSharedb p || Einsum.denseCheckTerms l.toList r.toList o.toList p) := by
  simp only [leafOKb, leafClauses, denseClauses, allb_cons, allb_nil, Bool.and_true, denseCheck_eq_terms p l r o hp]

theorem leafReason_dense_eq_terms (p : Params) (l r o : String) (hp : Einsum.parseSubscripts p.str = .ok (l, r, o)) :
    leafReason .dense p = if !Einsum.denseSharedb p || Einsum.denseCheckTerms l.toList r.toList o.toList p then none
      else some ("dense:" ++ (Einsum.denseReasonTerms l.toList r.toList o.toList p).getD "") := by
  simp only [leafReason, leafClauses, denseClauses, firstFail, denseCheck_eq_terms p l r o hp,
    denseReason_eq_terms p l r o hp]

/-! ### all the leaf classes -/

/-- **the Boolean leaf check decides `listLeafOK`** -/
theorem leafOKb_iff (c : LeafCls) (p : Params) : leafOKb c p = true ↔ listLeafOK c p := by
  unfold leafOKb
  cases c
  case toeplitz => exact toeplitz_iff p
  case moveAxis => exact moveAxis_iff p
  case ravel => exact reshape_iff p
  case reshape => exact reshape_iff p
  case index => exact index_iff p
  case pack => exact pack_iff p
  case qurot => exact stokes_iff .qurot p
  case hwp => exact stokes_iff .hwp p
  case polarizer => exact stokes_iff .polarizer p
  case diagonal => exact diagonal_iff p
  case dense => exact dense_iff p
  all_goals simp [leafClauses, allb, listLeafOK]

/-- soundness -/
theorem leafOKb_sound (c : LeafCls) (p : Params) : leafOKb c p = true → listLeafOK c p := (leafOKb_iff c p).mp

/-- completeness: a `false` answer really means "outside the domain of the theorems" -/
theorem leafOKb_complete (c : LeafCls) (p : Params) : listLeafOK c p → leafOKb c p = true := (leafOKb_iff c p).mpr

instance (c : LeafCls) (p : Params) : Decidable (listLeafOK c p) := decidable_of_iff _ (leafOKb_iff c p)

theorem leafReason_none_iff (c : LeafCls) (p : Params) : leafReason c p = none ↔ leafOKb c p = true :=
  firstFail_none_iff _

/-! ### wrappers, compositions, containers -/

theorem isLazyb_iff (k : WrapCls) : isLazyb k = true ↔ k.isLazy := by
  cases k <;> simp [isLazyb, WrapCls.isLazy]

/-- `WrapOK` = its structural part (decided) + the invertibility of the operand of a lazy inverse (not decided) -/
theorem wrapOK_iff (inv : Op → Prop) (k : WrapCls) (o : Op) :
    WrapOK inv k o ↔ allb (wrapClauses k o) = true ∧ (isLazyb k = true → inv o) := by
  simp only [WrapOK, wrapClauses, allb_cons, allb_nil, Bool.and_true, Bool.and_eq_true,
    Bool.or_eq_true, Bool.not_eq_true', decide_eq_true_eq, ← isLazyb_iff]
  cases hk : isLazyb k <;> simp <;> tauto

theorem chainb_iff : ∀ ops : List Op, chainb ops = true ↔ Chain ops
  | [] => by simp [chainb, Chain]
  | [_] => by simp [chainb, Chain]
  | a :: b :: rest => by
    simp only [chainb, Chain, Bool.and_eq_true, decide_eq_true_eq, chainb_iff (b :: rest)]

theorem contOK_iff (k : ContCls) (td : TreeDef) (ops : List Op) :
    allb (contClauses k td ops) = true ↔ ContOK k td ops := by
  cases k <;>
    simp [contClauses, ContOK, allb_cons, allb_nil]

theorem isEmpty_not_iff (ops : List Op) : (!ops.isEmpty) = true ↔ ops ≠ [] := by
  cases ops <;> simp

section expr
variable (leafb : LeafCls → Params → Bool) (leafOK : LeafCls → Params → Prop)
  (hleaf : ∀ c p, leafb c p = true ↔ leafOK c p) (inv : Op → Prop)
include hleaf

set_option linter.unusedSectionVars false in
mutual
/-- **`WTExpr` = the Boolean check (decided) + the invertibility of the operands of the lazy inverses** -/
theorem validWith_iff : ∀ o : Op,
    WTExpr inv leafOK o ↔ validWith leafb o = true ∧ ∀ a ∈ lazyOperands o, inv a
  | .leaf _ c p => by
    simp only [WTExpr, validWith, lazyOperands, List.not_mem_nil, false_imp_iff, implies_true, and_true, hleaf]
  | .wrap _ k o => by
    simp only [WTExpr, validWith, lazyOperands, Bool.and_eq_true, validWith_iff o, wrapOK_iff, List.mem_append]
    cases hk : isLazyb k
    · simp only [Bool.false_eq_true, false_imp_iff, and_true, if_false, List.not_mem_nil, false_or]
      tauto
    · simp only [true_imp_iff, if_true, List.mem_singleton]
      constructor
      · rintro ⟨⟨h1, h2⟩, h3, h4⟩
        exact ⟨⟨h1, h3⟩, fun a ha => by rcases ha with rfl | ha; exacts [h4, h2 a ha]⟩
      · rintro ⟨⟨h1, h3⟩, h⟩
        exact ⟨⟨h1, fun a ha => h a (Or.inr ha)⟩, h3, h o (Or.inl rfl)⟩
  | .comp _ ops => by
    simp only [WTExpr, validWith, lazyOperands, Bool.and_eq_true, validWithList_iff ops, chainb_iff, isEmpty_not_iff]
    tauto
  | .cont _ k td ops => by
    simp only [WTExpr, validWith, lazyOperands, Bool.and_eq_true, validWithList_iff ops, contOK_iff, isEmpty_not_iff]
    tauto
theorem validWithList_iff : ∀ ops : List Op,
    WTList inv leafOK ops ↔ validWithList leafb ops = true ∧ ∀ a ∈ lazyOperandsList ops, inv a
  | [] => by simp [WTList, validWithList, lazyOperandsList]
  | o :: os => by
    simp only [WTList, validWithList, lazyOperandsList, Bool.and_eq_true, validWith_iff o, validWithList_iff os,
      List.mem_append]
    constructor
    · rintro ⟨⟨h1, h2⟩, h3, h4⟩
      exact ⟨⟨h1, h3⟩, fun a ha => by rcases ha with ha | ha; exacts [h2 a ha, h4 a ha]⟩
    · rintro ⟨⟨h1, h3⟩, h⟩
      exact ⟨⟨h1, fun a ha => h a (Or.inl ha)⟩, h3, fun a ha => h a (Or.inr ha)⟩
end

end expr

mutual
/-- the operands of the lazy inverses of a valid expression are valid -/
theorem lazyOperands_valid (leafb : LeafCls → Params → Bool) : ∀ o : Op, validWith leafb o = true →
    ∀ a ∈ lazyOperands o, validWith leafb a = true
  | .leaf _ _ _, _ => by simp [lazyOperands]
  | .wrap _ k o, h => by
    simp only [validWith, Bool.and_eq_true] at h
    intro a ha
    simp only [lazyOperands, List.mem_append] at ha
    rcases ha with ha | ha
    · split at ha
      · rw [List.mem_singleton.mp ha]; exact h.1
      · simp at ha
    · exact lazyOperands_valid leafb o h.1 a ha
  | .comp _ ops, h => by
    simp only [validWith, Bool.and_eq_true] at h
    exact lazyOperandsList_valid leafb ops h.1.2
  | .cont _ _ _ ops, h => by
    simp only [validWith, Bool.and_eq_true] at h
    exact lazyOperandsList_valid leafb ops h.1.2
theorem lazyOperandsList_valid (leafb : LeafCls → Params → Bool) : ∀ ops : List Op, validWithList leafb ops = true →
    ∀ a ∈ lazyOperandsList ops, validWith leafb a = true
  | [], _ => by simp [lazyOperandsList]
  | o :: os, h => by
    simp only [validWithList, Bool.and_eq_true] at h
    intro a ha
    simp only [lazyOperandsList, List.mem_append] at ha
    rcases ha with ha | ha
    · exact lazyOperands_valid leafb o h.1 a ha
    · exact lazyOperandsList_valid leafb os h.2 a ha
end

/-! ### the diagnostic agrees with the check -/

mutual
theorem invalidReasonWith_none_iff (leafb : LeafCls → Params → Bool) (leafR : LeafCls → Params → Option String)
    (h : ∀ c p, leafR c p = none ↔ leafb c p = true) : ∀ o : Op,
    invalidReasonWith leafR o = none ↔ validWith leafb o = true
  | .leaf _ c p => by simp only [invalidReasonWith, validWith, h]
  | .wrap _ k o => by
    simp only [invalidReasonWith, validWith, Bool.and_eq_true, ← invalidReasonWith_none_iff leafb leafR h o,
      ← firstFail_none_iff]
    cases invalidReasonWith leafR o <;> simp
  | .comp _ ops => by
    simp only [invalidReasonWith, validWith, Bool.and_eq_true, ← invalidReasonWithList_none_iff leafb leafR h ops]
    cases ops.isEmpty <;> cases invalidReasonWithList leafR ops <;> cases chainb ops <;> simp
  | .cont _ k td ops => by
    simp only [invalidReasonWith, validWith, Bool.and_eq_true, ← invalidReasonWithList_none_iff leafb leafR h ops,
      ← firstFail_none_iff]
    cases ops.isEmpty <;> cases invalidReasonWithList leafR ops <;> simp
theorem invalidReasonWithList_none_iff (leafb : LeafCls → Params → Bool) (leafR : LeafCls → Params → Option String)
    (h : ∀ c p, leafR c p = none ↔ leafb c p = true) : ∀ ops : List Op,
    invalidReasonWithList leafR ops = none ↔ validWithList leafb ops = true
  | [] => by simp [invalidReasonWithList, validWithList]
  | o :: os => by
    simp only [invalidReasonWithList, validWithList, Bool.and_eq_true, ← invalidReasonWith_none_iff leafb leafR h o,
      ← invalidReasonWithList_none_iff leafb leafR h os]
    cases invalidReasonWith leafR o <;> simp
end

/-- the diagnostic is `none` exactly when the check passes -/
theorem invalidReason_none_iff (o : Op) : invalidReason o = none ↔ validb o = true :=
  invalidReasonWith_none_iff leafOKb leafReason leafReason_none_iff o

/-! ### the hypothesis of `reduce_sound_closed` -/

/-- **`WTExpr inv listLeafOK o` is `validb o` (decided) plus the invertibility of the operands of the lazy inverses
(the one promise the check cannot decide)** -/
theorem validb_iff (inv : Op → Prop) (o : Op) :
    WTExpr inv listLeafOK o ↔ validb o = true ∧ ∀ a ∈ lazyOperands o, inv a :=
  validWith_iff leafOKb listLeafOK leafOKb_iff inv o

/-- **soundness**: `WrapOK inv k a` asks `inv a` of the OPERAND `a` of every lazy inverse `.wrap u k a`
(`k ∈ {inverse, qurotT, diagInv}`); these operands are `lazyOperands o` -/
theorem validb_sound (inv : Op → Prop) (o : Op) (h : validb o = true) (hinv : ∀ a ∈ lazyOperands o, inv a) :
    WTExpr inv listLeafOK o := (validb_iff inv o).mpr ⟨h, hinv⟩

/-- **completeness**: an expression in the domain of the theorems passes the check -/
theorem validb_complete (inv : Op → Prop) (o : Op) (h : WTExpr inv listLeafOK o) : validb o = true :=
  ((validb_iff inv o).mp h).1

/-- without its invertibility part (the form `tags_truthful_closed` and the adjointness theorems use) the
well-formedness predicate is decided -/
theorem validb_iff_noInv (o : Op) : WTExpr (fun _ => True) listLeafOK o ↔ validb o = true := by
  simpa using validb_iff (fun _ => True) o

instance (o : Op) : Decidable (WTExpr (fun _ => True) listLeafOK o) := decidable_of_iff _ (validb_iff_noInv o).symm

/-- structural well-formedness is decided (no invertibility is asked) -/
theorem structOK_iff (o : Op) : StructOK o ↔ validWith (fun _ _ => true) o = true := by
  have := validWith_iff (fun _ _ => true) (fun _ _ => True) (fun _ _ => by simp) (fun _ => True) o
  simpa [StructOK] using this

instance (o : Op) : Decidable (StructOK o) := decidable_of_iff _ (structOK_iff o).symm

/-- a valid diagonal without zero entry is invertible (`ListSem.diagonal_inverts` in the shape `WrapOK` asks) -/
theorem diagonal_invertibleG (E : Env) (u : Nat) (p : Params) (h : diagonalOK p) (hw : p.vals.wellFormed = true)
    (hnz : ∀ v ∈ p.vals.data, v ≠ 0) : invertibleG E (.leaf u .diagonal p) := by
  have I := diagonal_inverts E 0 u p h hw hnz
  refine invertibleG_of E _ (StructOK_leaf _ _ _) rfl
    ⟨den E (.wrap 0 .diagInv (.leaf u .diagonal p)), fun x hx => ⟨I.len' x hx, I.right x hx, I.left x hx⟩,
      fun a x _ => (homLaw E (leafHom E)).1 _ a x⟩
    (fun hq => by simp [Op.isQURot, Op.isLeafCls] at hq) (fun u' p' he => ?_)
  cases he
  exact ⟨I.left, fun x hx => I.right x hx⟩

/-- **the operands `invDecidedb` accepts are invertible**: rotations and diagonals without zero entry -/
theorem invDecided_invertibleG (E : Env) (a : Op) (hv : validb a = true) (hd : invDecidedb a = true) :
    invertibleG E a := by
  cases a with
  | leaf u c p =>
    have hl : listLeafOK c p := (leafOKb_iff c p).mp (by simpa [validb, validWith] using hv)
    cases c
    case qurot => exact qurot_invertibleG E u p hl
    case diagonal =>
      simp only [invDecidedb, Bool.and_eq_true, List.all_eq_true, bne_iff_ne, ne_eq] at hd
      exact diagonal_invertibleG E u p hl hd.1 hd.2
    all_goals simp [invDecidedb] at hd
  | _ => simp [invDecidedb] at hd

/-- for the list denotation only the operands of the lazy inverses that are neither rotations nor diagonals without
zero entry (`promises o`) are left to promise -/
theorem validb_sound_list (E : Env) (o : Op) (h : validb o = true)
    (hinv : ∀ a ∈ promises o, invertibleG E a) :
    WTExpr (listArithSem E).invertible listLeafOK o := by
  refine validb_sound _ o h fun a ha => ?_
  cases hd : invDecidedb a with
  | false => exact hinv a (by simp [promises, ha, hd])
  | true => exact invDecided_invertibleG E a (lazyOperands_valid leafOKb o h a ha) hd

theorem promises_nil_iff (o : Op) : promises o = [] ↔ noPromiseb o = true := by
  simp [promises, noPromiseb, List.filter_eq_nil_iff]

/-! ### the hypotheses of `transpose_is_adjoint_closed` -/

theorem adjLeafOKb_iff (c : LeafCls) (p : Params) : adjLeafOKb c p = true ↔ adjLeafOK c p := by
  have := leafOKb_iff c p
  unfold leafOKb at this
  simp only [adjLeafOKb, adjLeafClauses, allb_append, allb_cons, allb_nil, Bool.and_true, Bool.and_eq_true, this,
    adjLeafOK, bne_iff_ne]

theorem adjLeafOKb_eq (c : LeafCls) (p : Params) : adjLeafOKb c p = (leafOKb c p && c != .broadcastDiagonal) := by
  simp only [adjLeafOKb, adjLeafClauses, leafOKb, allb_append, allb_cons, allb_nil, Bool.and_true]

theorem adjLeafReason_none_iff (c : LeafCls) (p : Params) : adjLeafReason c p = none ↔ adjLeafOKb c p = true :=
  firstFail_none_iff _

theorem isDiagonalLeaf_iff (o : Op) : isDiagonalLeaf o = true ↔ ∃ u p, o = .leaf u .diagonal p := by
  cases o with
  | leaf u c p => cases c <;> simp [isDiagonalLeaf]
  | _ => simp [isDiagonalLeaf]

mutual
theorem tformb_iff : ∀ o : Op, tformb o = true ↔ TFormOK o
  | .leaf _ c p => by
    simp only [tformb, TFormOK, denseSharedb_eq]
    by_cases h : c = .dense <;> simp [h]
  | .wrap _ k o => by simp only [tformb, TFormOK, ne_or_iff, isDiagonalLeaf_iff]
  | .comp _ ops => by simp only [tformb, TFormOK, tformListb_iff ops]
  | .cont _ _ _ ops => by simp only [tformb, TFormOK, tformListb_iff ops]
theorem tformListb_iff : ∀ ops : List Op, tformListb ops = true ↔ TFormOKList ops
  | [] => by simp [tformListb, TFormOKList]
  | o :: os => by simp only [tformListb, TFormOKList, Bool.and_eq_true, tformb_iff o, tformListb_iff os]
end

mutual
theorem wftb_iff : ∀ o : Op, wftb o = true ↔ o.WFT
  | .leaf _ c p => by
    simp only [wftb, Op.WFT, Bool.or_eq_true, Bool.not_eq_true', decide_eq_true_eq]
    cases isSymmetricLeaf c <;> simp
  | .wrap _ _ _ => by simp [wftb, Op.WFT]
  | .comp _ ops => by simp only [wftb, Op.WFT, wftListb_iff ops]
  | .cont _ _ _ ops => by simp only [wftb, Op.WFT, wftListb_iff ops]
theorem wftListb_iff : ∀ ops : List Op, wftListb ops = true ↔ Op.WFTList ops
  | [] => by simp [wftListb, Op.WFTList]
  | o :: os => by simp only [wftListb, Op.WFTList, Bool.and_eq_true, wftb_iff o, wftListb_iff os]
end

/-- **the hypotheses of `transpose_is_adjoint_closed` are decided** (no invertibility is asked there) -/
theorem validTb_iff (o : Op) : validTb o = true ↔ ValidT o ∧ o.WFT := by
  have h := validWith_iff adjLeafOKb adjLeafOK adjLeafOKb_iff (fun _ => True) o
  simp only [implies_true, and_true] at h
  simp only [validTb, Bool.and_eq_true, ← h, tformb_iff, wftb_iff, ValidT, ListSem.Valid]

theorem invalidReasonT_none_iff (o : Op) : invalidReasonT o = none ↔ validTb o = true := by
  have h := invalidReasonWith_none_iff adjLeafOKb adjLeafReason adjLeafReason_none_iff o
  unfold invalidReasonT validTb
  cases hr : invalidReasonWith adjLeafReason o with
  | some r =>
    have : validWith adjLeafOKb o = false := by
      cases hv : validWith adjLeafOKb o with
      | false => rfl
      | true => rw [hr] at h; exact absurd (h.mpr hv) (by simp)
    simp [this]
  | none =>
    rw [hr] at h
    simp only [h.mp rfl, Bool.true_and]
    cases tformb o <;> cases wftb o <;> simp

instance (o : Op) : Decidable (ValidT o ∧ o.WFT) := decidable_of_iff _ (validTb_iff o)

#print axioms leafOKb_iff
#print axioms validb_iff
#print axioms validb_sound
#print axioms validb_complete
#print axioms validb_sound_list
#print axioms invDecided_invertibleG
#print axioms validTb_iff
#print axioms invalidReason_none_iff
#print axioms invalidReasonT_none_iff

end Valid
end Furax
