import FuraxModel
open Furax

partial def loop (h : IO.FS.Stream) (out : IO.FS.Stream) : IO Unit := do
  let line ← h.getLine
  if line.isEmpty then return ()
  let l := line.trimAscii.toString
  if l.isEmpty then
    out.putStrLn ""
  else
    out.putStrLn (handle l)
  out.flush
  loop h out

def main : IO Unit := do
  loop (← IO.getStdin) (← IO.getStdout)
